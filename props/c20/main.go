// C20: federation _entities answers each representation at its own index.
//
// Model checking of the real generated federation code: the `fed` probe server is generated
// at check time from the tree under test in the configurations {federation v2, v1} x
// {default, explicit_requires, computed_requires}; the generated package and gqlgen's
// runtime are instrumented (vinstr) and run under the controlled scheduler (vrt). For every
// representation list up to a length over the alphabet of verif/c20, without and with every
// single fault (error / panic / nil result at each stub call), every schedule of the per-type
// and per-entity goroutines within a preemption bound is executed; each execution's
// response is compared element by element with a reference that evaluates every
// representation on its own (verif/c20/ref.go).
package main

import (
	"bufio"
	"encoding/json"
	"fmt"
	"os"
	"os/exec"
	"path/filepath"
	"runtime"
	"sort"
	"strconv"
	"strings"
	"sync"
	"time"

	"verif/c20"
	"verif/common"
	"verif/explore"
	"verif/probe"
)

type fedConfig struct {
	Name    string
	Version int
	Mode    string // default | explicit | computed
	// MayNotGenerate: gqlgen documents that this combination is rejected by the generator.
	MayNotGenerate bool
	// Full: the thorough tier explores this configuration with the full plan (all schedules
	// with zero preemptions for every fault-free list of length 3: ~8.4M executions); the
	// others get the reduced plan (length 3 on the canonical schedule). The federation
	// template code under test is the same in every configuration (v1 and v2 generate a
	// byte-identical federation.go, recorded in the evidence); the modes differ in the
	// requires handling of Req / MultiReq only.
	Full bool
}

func (fc fedConfig) plan(tier string) []c20.LenPlan {
	if os.Getenv("VERIF_C20_PLAN") != "" { // development aid
		return c20.PlanFor(tier)
	}
	return c20.DefaultPlan(tier, fc.Full)
}

var (
	v2def = fedConfig{Name: "v2-default", Version: 2, Mode: "default", Full: true}
	v2exp = fedConfig{Name: "v2-explicit_requires", Version: 2, Mode: "explicit"}
	v2com = fedConfig{Name: "v2-computed_requires", Version: 2, Mode: "computed"}
	v1def = fedConfig{Name: "v1-default", Version: 1, Mode: "default"}
	v1exp = fedConfig{Name: "v1-explicit_requires", Version: 1, Mode: "explicit"}
	v1com = fedConfig{Name: "v1-computed_requires", Version: 1, Mode: "computed", MayNotGenerate: true}
)

func (fc fedConfig) yaml() string {
	y := "schema:\n  - schema.graphql\nexec:\n  filename: graph/generated.go\n  package: graph\n" +
		"federation:\n  filename: graph/federation.go\n  package: graph\n  version: " + strconv.Itoa(fc.Version) + "\n"
	switch fc.Mode {
	case "explicit":
		y += "  options:\n    explicit_requires: true\n"
	case "computed":
		y += "  options:\n    computed_requires: true\n"
	}
	y += "model:\n  filename: graph/models_gen.go\n  package: graph\n"
	if fc.Mode == "computed" {
		y += "call_argument_directives_with_null: true\n"
	}
	return y
}

// schema: federation v1 has no @link header.
func (fc fedConfig) schema(src string) string {
	if fc.Version == 2 {
		return src
	}
	i, j := strings.Index(src, "#v2-begin"), strings.Index(src, "#v2-end")
	if i < 0 || j < 0 {
		common.Broken("probes/fed/schema.graphql: v2 markers not found")
	}
	return src[:i] + src[j+len("#v2-end"):]
}

type built struct {
	Cfg  fedConfig
	Dir  string
	Bin  string
	Err  error
	Skip string // generator rejected a MayNotGenerate configuration: its message
}

func readHarness(name string) string {
	b, err := os.ReadFile(filepath.Join(common.Root, "c20", "harness", name))
	if err != nil {
		common.Broken("harness template %s: %v", name, err)
	}
	return string(b)
}

func buildAll(cfgs []fedConfig) []built {
	if _, err := probe.Driver(); err != nil {
		common.Broken("%v", err)
	}
	if _, err := probe.Vinstr(); err != nil {
		common.Broken("%v", err)
	}
	out := make([]built, len(cfgs))
	var wg sync.WaitGroup
	sem := make(chan struct{}, 6)
	for i, fc := range cfgs {
		wg.Add(1)
		go func(i int, fc fedConfig) {
			defer wg.Done()
			sem <- struct{}{}
			defer func() { <-sem }()
			out[i] = buildOne(fc)
		}(i, fc)
	}
	wg.Wait()
	return out
}

func buildOne(fc fedConfig) built {
	src := probe.ReadProbe("fed")
	files := map[string]string{
		"schema.graphql":     fc.schema(src["schema.graphql"]),
		"gqlgen.yml":         fc.yaml(),
		"harness/main.go":    readHarness("main.go.txt"),
		"harness/variant.go": readHarness("variant_" + fc.Mode + ".go.txt"),
	}
	res, err := probe.Generate(probe.Spec{Name: "fed-" + fc.Name, Files: files, Stub: "graph/stub.go"})
	b := built{Cfg: fc, Dir: res.Dir}
	if err != nil {
		b.Err = err
		return b
	}
	if res.ExitCode != 0 {
		if fc.MayNotGenerate && res.ExitCode == 3 {
			b.Skip = strings.TrimSpace(res.Output)
			return b
		}
		b.Err = fmt.Errorf("generation failed (exit %d): %s", res.ExitCode, res.Output)
		return b
	}
	if fc.Mode == "explicit" {
		// fill in the generated requires populators the way a user would
		p := filepath.Join(res.Dir, "graph", "federation.requires.go")
		raw, err := os.ReadFile(p)
		if err != nil {
			b.Err = fmt.Errorf("explicit_requires did not generate federation.requires.go: %v", err)
			return b
		}
		s := string(raw)
		for _, t := range []string{"Req", "MultiReq", "Req3", "MultiReq3"} {
			old := `panic(fmt.Errorf("not implemented: Populate` + t + `Requires"))`
			if !strings.Contains(s, old) {
				b.Err = fmt.Errorf("federation.requires.go: no generated stub body for Populate%sRequires:\n%s", t, s)
				return b
			}
			body := `return RequiresHook(ctx, "Populate` + t + `Requires", reps, func(w int) { entity.Weight = w; entity.Cost = 1000 + w })`
			if strings.HasSuffix(t, "3") {
				body = `return Requires3Hook(ctx, "Populate` + t + `Requires", reps, func(q int, l string, r float64) { entity.Qty, entity.Label, entity.Ratio = q, l, r; entity.Total = fmt.Sprintf("%d|%s|%g", q, l, r) })`
			}
			s = strings.Replace(s, old, body, 1)
		}
		os.WriteFile(p, []byte(s), 0o644)
		os.WriteFile(filepath.Join(res.Dir, "graph", "requires_hook.go"), []byte(readHarness("requires_hook.go.txt")), 0o644)
	}
	b.Bin = filepath.Join(res.Dir, "harness.bin")
	// -maprange: generated federation code ranges over the map of type groups; the order is
	// pinned (sorted) so that thread ids and replay are deterministic
	args := append([]string{"-maprange"}, probe.RuntimePkgs...)
	args = append(args, "probe/graph")
	b.Err = probe.BuildInstrumented(res.Dir, args, "./harness", b.Bin)
	return b
}

func runShards(b built, tier string, deadline time.Time) c20.ShardResult {
	n := runtime.NumCPU()
	merged := c20.ShardResult{Kinds: map[string]int{}, SigCounts: map[string]int{}, PerLen: map[int][3]int64{}, Exhaustive: true}
	var mu sync.Mutex
	var wg sync.WaitGroup
	sigSeen := map[string]bool{}
	results := make([]*c20.ShardResult, n)
	for i := 0; i < n; i++ {
		wg.Add(1)
		go func(i int) {
			defer wg.Done()
			cmd := exec.Command(b.Bin, "--tier", tier, "--shard", fmt.Sprintf("%d/%d", i, n), "--deadline", strconv.FormatInt(deadline.Unix(), 10))
			cmd.Env = append(os.Environ(), "GOMAXPROCS=2", "VERIF_FED_MODE="+b.Cfg.Mode, "VERIF_CONFIG="+b.Cfg.Name, "VERIF_C20_PLAN="+c20.Encode(b.Cfg.plan(tier)))
			cmd.Stderr = os.Stderr
			out, _ := cmd.StdoutPipe()
			if err := cmd.Start(); err != nil {
				common.Broken("harness start: %v", err)
			}
			sc := bufio.NewScanner(out)
			sc.Buffer(make([]byte, 1<<20), 1<<28)
			for sc.Scan() {
				var r c20.ShardResult
				if err := json.Unmarshal(sc.Bytes(), &r); err != nil {
					common.Broken("harness output: %v: %.300s", err, sc.Text())
				}
				mu.Lock()
				results[i] = &r
				mu.Unlock()
			}
			if err := cmd.Wait(); err != nil {
				mu.Lock()
				r := results[i]
				mu.Unlock()
				if r != nil && r.Broken != "" {
					probe.Cleanup()
					common.Broken("config %s shard %d: %s", b.Cfg.Name, i, r.Broken)
				}
				probe.Cleanup()
				common.Broken("harness shard %d of config %s failed: %v", i, b.Cfg.Name, err)
			}
		}(i)
	}
	wg.Wait()
	for i, r := range results { // merged in shard order: deterministic
		if r == nil {
			common.Broken("config %s shard %d produced no result", b.Cfg.Name, i)
		}
		merged.Scenarios += r.Scenarios
		merged.Completed += r.Completed
		merged.Execs += r.Execs
		merged.Transitions += r.Transitions
		merged.Switched += r.Switched
		merged.FaultCases += r.FaultCases
		merged.NontrivialSch += r.NontrivialSch
		merged.MaxCost = max(merged.MaxCost, r.MaxCost)
		merged.MaxSteps = max(merged.MaxSteps, r.MaxSteps)
		if !r.Exhaustive {
			merged.Exhaustive = false
		}
		for k, v := range r.Kinds {
			merged.Kinds[k] += v
		}
		for k, v := range r.SigCounts {
			merged.SigCounts[k] += v
		}
		for k, v := range r.PerLen {
			x := merged.PerLen[k]
			x[0] += v[0]
			x[1] += v[1]
			x[2] += v[2]
			merged.PerLen[k] = x
		}
		merged.MultiOutcome = append(merged.MultiOutcome, r.MultiOutcome...)
		for _, f := range r.Found {
			if !sigSeen[f.Sig] {
				sigSeen[f.Sig] = true
				merged.Found = append(merged.Found, f)
			}
		}
		if len(merged.Samples) < 2 {
			merged.Samples = append(merged.Samples, r.Samples...)
		}
	}
	return merged
}

var assumptions = []string{
	"an execution = one _entities request (executor.CreateOperationContext + DispatchOperation, response function called to completion) on the probe server generated at check time; scheduling points: every stub resolver call (a yield inside), goroutine starts, WaitGroup / mutex / atomic operations of the instrumented generated code and gqlgen runtime; schedules = all with at most pb preemptions (CHESS bound), map iteration order over the type groups pinned to sorted order (it only changes goroutine spawn order)",
	"faults are keyed by (stub call, key value): a duplicate representation shares its fault; a batch (multi) resolver returns ONE error for the whole call, so an error/panic fault in a batch call is expected to null every representation of THAT call (same type, same own key) and nothing else; a nil result is 'entity not found': the element must be null, an accompanying error is allowed but not required",
	"gqlgen reports entity-resolution errors on path [\"_entities\"] without an index, so errors are checked as a count (every failed single-resolver representation needs its own error, failed representations of one multi-resolver type may share one; no more errors than failed + nil representations) plus: an injected error/panic must be reported; messages and paths are not compared",
	"representations the federation spec does not allow (unknown / missing __typename, missing / null key, nested key not an object, missing required field) are expected to be answered null with an error at their own index and to leave every other element untouched (gqlgen does not reject the whole request for them); the reference selects the first @key whose fields are all present and not all null",
	"only fields whose value the statement defines are selected: Req{id weight cost} / MultiReq{id weight cost} in default mode (weight copied from the representation by generated code), Req{id weight cost} (cost, weight set by the user-written populator from the representation it is handed) and MultiReq{id weight} under explicit_requires (gqlgen does not call populators on the multi path), Req{id cost} / MultiReq{id cost} under computed_requires (cost computed by the field resolver from the representation it is handed)",
	"stub resolvers behave like real resolvers that hand their context to a backend client: after their scheduling point they return ctx.Err() when their context has been cancelled; the harness never cancels the request context, so any cancellation is the doing of the code under test (context is swapped for vcontext in the instrumented generated code: cancel is a visible operation)",
	"key VALUES of the wrong JSON type (object / list for ID! / String!, string for Int!) are in the alphabet for single, multi and nested keys: such a representation must be null with an error and must not move any other element. For a multi-resolver batch that contains one, gqlgen rejects the whole batch call before invoking the resolver; this whole-batch rejection (every representation of that batch null, with an error) is accepted ONLY for batches containing such a not-well-formed representation. Values gqlgen's lenient scalars coerce (bool for ID!, number for String!; a null component of a key that is not all null, read as \"\" / \"null\" / 0) may be answered either way (null + error, or the entity of the coerced key): whether they are accepted is input coercion (C02)",
	"required (@requires) field VALUES: a value the field's scalar rejects (string for Int / Float, object, list) must fail THAT representation (null + error), never yield a zero value and never change another element; absent / null required values (read as the zero value by gqlgen's built-in scalars) and a number for String (coerced) may be answered either way where generated code copies the field (default mode, multi path); the user-written populator (explicit_requires, Req3) and the computed `total` resolvers (computed_requires) of the harness are strict: anything but a well-typed value fails the representation. Selected fields: Req3 / MultiReq3 {id qty label ratio total} in default mode, Req3 {id qty label ratio total} and MultiReq3 {id qty label ratio} under explicit_requires, {id total} under computed_requires",
	"memory-level data races are invisible to a cooperative scheduler (generated code writes list[rep.index] from several goroutines: distinct indices, checked here only through the resulting values)",
}

func main() {
	c := common.New("C20", "model_checking")
	c.Assume = assumptions
	tier := c.Tier
	cfgs := []fedConfig{v2def, v2exp}
	budget := 150 * time.Second
	if tier == "thorough" {
		cfgs = []fedConfig{v2def, v2exp, v2com, v1def, v1exp, v1com}
		budget = 20 * time.Minute
	}
	if sel := os.Getenv("VERIF_C20_CONFIGS"); sel != "" { // development aid: run only the named configurations
		cfgs = nil
		for _, fc := range []fedConfig{v2def, v2exp, v2com, v1def, v1exp, v1com} {
			for _, n := range strings.Split(sel, ",") {
				if n == fc.Name {
					cfgs = append(cfgs, fc)
				}
			}
		}
	}
	if b, _ := strconv.Atoi(argValue("--budget")); b > 0 {
		budget = time.Duration(b) * time.Second
	}
	start := time.Now()
	if rp := common.ReplayArg(); rp != "" {
		os.Exit(replay(rp))
	}
	builds := buildAll(cfgs)
	var run []built
	notGenerated := map[string]string{}
	for _, b := range builds {
		switch {
		case b.Err != nil:
			probe.Cleanup()
			common.Broken("config %s: %v", b.Cfg.Name, b.Err)
		case b.Skip != "":
			notGenerated[b.Cfg.Name] = b.Skip
		default:
			run = append(run, b)
		}
	}
	// the full-plan configuration runs last: every configuration gets an equal share of the
	// remaining budget, so it inherits whatever the cheap ones did not use
	sort.SliceStable(run, func(i, j int) bool { return !run[i].Cfg.Full && run[j].Cfg.Full })
	// record which v1 configurations generate the same federation.go as their v2 counterpart
	identical := []string{}
	for _, r := range run {
		for _, o := range run {
			if r.Cfg.Version == 1 && o.Cfg.Version == 2 && o.Cfg.Mode == r.Cfg.Mode {
				a, e1 := os.ReadFile(filepath.Join(r.Dir, "graph", "federation.go"))
				b, e2 := os.ReadFile(filepath.Join(o.Dir, "graph", "federation.go"))
				if e1 == nil && e2 == nil && string(a) == string(b) {
					identical = append(identical, r.Cfg.Name+" == "+o.Cfg.Name)
				}
			}
		}
	}
	buildS := time.Since(start).Seconds()
	if os.Getenv("VERIF_C20_KEEP") != "" { // development aid: keep the built harnesses
		for _, b := range run {
			fmt.Println("built", b.Cfg.Name, b.Cfg.Mode, b.Bin)
		}
		return
	}
	end := start.Add(budget)
	var execs, trans, switched int64
	scen, completed, faultCases, nontrivial := 0, 0, 0, 0
	exhaustive := true
	kinds := map[string]int{}
	per := []map[string]any{}
	maxCost, maxStepsSeen := 0, 0
	for bi, b := range run {
		left := time.Until(end)
		if left < 0 {
			left = 0
		}
		deadline := time.Now().Add(left / time.Duration(len(run)-bi))
		r := runShards(b, tier, deadline)
		execs += r.Execs
		trans += r.Transitions
		switched += r.Switched
		scen += r.Scenarios
		completed += r.Completed
		faultCases += r.FaultCases
		nontrivial += r.NontrivialSch
		maxCost = max(maxCost, r.MaxCost)
		maxStepsSeen = max(maxStepsSeen, r.MaxSteps)
		if !r.Exhaustive {
			exhaustive = false
		}
		for k, v := range r.Kinds {
			kinds[k] += v
		}
		perLen := map[string]any{}
		var lens []int
		for k := range r.PerLen {
			lens = append(lens, k)
		}
		sort.Ints(lens)
		for _, k := range lens {
			v := r.PerLen[k]
			perLen[strconv.Itoa(k)] = map[string]int64{"scenarios": v[0], "scenarios_completed": v[2], "executions": v[1]}
		}
		per = append(per, map[string]any{"config": b.Cfg.Name, "plan_per_list_length": c20.Describe(b.Cfg.plan(tier)), "scenarios": r.Scenarios, "scenarios_completed": r.Completed, "executions": r.Execs,
			"by_list_length": perLen, "signatures": r.SigCounts, "exhaustive": r.Exhaustive})
		for _, f := range r.Found {
			cs, _ := json.Marshal(f.Meta)
			var cse c20.Case
			json.Unmarshal(cs, &cse)
			c.Report(f.Sig, fmt.Sprintf("[%s] %s: %s", b.Cfg.Name, f.Scenario, f.Msg), map[string]any{"config": b.Cfg.Name, "case": cse, "found": f})
		}
		for _, name := range r.MultiOutcome {
			c.Report("response-depends-on-schedule", fmt.Sprintf("[%s] %s: different schedules gave different responses", b.Cfg.Name, name), map[string]any{"config": b.Cfg.Name, "scenario": name})
		}
		for _, s := range r.Samples {
			c.Sample(map[string]any{"config": b.Cfg.Name, "sample": s})
		}
	}
	c.Cov["states"] = execs
	c.Cov["transitions"] = trans
	c.Cov["traces_validated_against_impl"] = execs
	c.Cov["executions_with_context_switch"] = switched
	c.Cov["scenarios"] = scen
	c.Cov["scenarios_completed"] = completed
	c.Cov["single_fault_scenarios"] = faultCases
	c.Cov["scenarios_with_more_than_one_schedule"] = nontrivial
	c.Cov["final_state_kinds"] = kinds
	c.Cov["exhaustive"] = exhaustive
	var names []string
	for _, l := range c20.Alphabet {
		names = append(names, l.Name+"="+l.JSON)
	}
	c.Cov["bounds"] = map[string]any{"alphabet": names,
		"key_combination_stage":            fmt.Sprintf("entities Tri / MultiTri with @key(upc region) @key(sku) @key(id): all %d representations {present non-null, null, absent}^4 over their key fields, each alone (fault-free + every single fault) and paired in both orders with a well-formed same-type and a different-type representation (fault-free); every schedule, no bound; in both tiers and every configuration", len(c20.KeyCombos)),
		"required_field_combination_stage": fmt.Sprintf("entities Req3 / MultiReq3 whose `total` @requires qty: Int!, label: String!, ratio: Float!: all %d representations {well-typed, absent, null, wrong scalar type, object, list}^3 over the required fields, each alone (fault-free + every single fault; every schedule) and paired in both orders with a well-formed same-type representation with other values and with a different-type one (fault-free; canonical schedule, the well-formed combination on every schedule); both tiers, every configuration (default / explicit_requires / computed_requires)", len(c20.ReqCombos)), "fault_kinds": []string{"error", "panic", "nil"},
		"max_steps": 20000, "max_deviations_seen": maxCost, "max_steps_seen": maxStepsSeen, "configurations": len(run)}
	c.Cov["per_config"] = per
	c.Cov["configs_rejected_by_generator"] = notGenerated
	c.Cov["generated_federation_go_identical"] = identical
	c.Cov["build_seconds"] = int(buildS)
	c.Cov["explanation"] = "stateless DFS over scheduling decisions of the real generated federation code under the controlled runtime; states = complete executions; a scenario = (representation list, at most one fault); every execution is an execution of the implementation"
	probe.Cleanup()
	c.Finish()
}

func argValue(name string) string {
	for i, a := range os.Args {
		if a == name && i+1 < len(os.Args) {
			return os.Args[i+1]
		}
	}
	return ""
}

// replay rebuilds the configuration named in the replay file and re-runs its case + schedule.
func replay(path string) int {
	raw, err := os.ReadFile(path)
	if err != nil {
		common.Broken("replay: %v", err)
	}
	var doc struct {
		Replay struct {
			Config string `json:"config"`
		} `json:"replay"`
	}
	json.Unmarshal(raw, &doc)
	for _, fc := range []fedConfig{v2def, v2exp, v2com, v1def, v1exp, v1com} {
		if fc.Name != doc.Replay.Config {
			continue
		}
		b := buildAll([]fedConfig{fc})[0]
		if b.Err != nil || b.Skip != "" {
			probe.Cleanup()
			common.Broken("replay: config %s: %v %s", fc.Name, b.Err, b.Skip)
		}
		cmd := exec.Command(b.Bin, "--replay", path)
		cmd.Env = append(os.Environ(), "VERIF_FED_MODE="+fc.Mode, "VERIF_CONFIG="+fc.Name)
		cmd.Stdout, cmd.Stderr = os.Stdout, os.Stderr
		code := 0
		if err := cmd.Run(); err != nil {
			code = 2
			if ee, ok := err.(*exec.ExitError); ok {
				code = ee.ExitCode()
			}
		}
		probe.Cleanup()
		return code
	}
	common.Broken("replay: unknown config %q", doc.Replay.Config)
	return 2
}

var _ = explore.Found{}

// C11: websocket sessions follow the subscription protocol for every message sequence.
// Model checking of the real transport.Websocket (init, run, subscribe goroutines,
// keep-alive / ping goroutines, closeOnCancel) over an in-memory connection with gorilla's
// conn.go instrumented: every client frame sequence up to a length over the alphabet, for
// both subprotocols, interleaved with resolver events, ticks, timeouts and server-side
// cancellation under the controlled scheduler; a monitor checks the frame log.
package main

import (
	"bytes"
	"context"
	"encoding/json"
	"errors"
	"fmt"
	"strconv"
	"strings"
	"time"

	"github.com/99designs/gqlgen/graphql/handler"
	"github.com/99designs/gqlgen/graphql/handler/transport"

	"verif/explore"
	"verif/handschema"
	"verif/rig"
	"verif/vrt"
	"verif/vrt/vtime"
)

type step struct {
	Kind string `json:"k"` // init, init-bad, start, start-query, stop, ping, pong, terminate, invalid, unknown, await-cancel, close-frame
	ID   int    `json:"id,omitempty"`
}

func (s step) String() string {
	if s.ID != 0 {
		return fmt.Sprintf("%s(%d)", s.Kind, s.ID)
	}
	return s.Kind
}

type scen struct {
	Proto     string `json:"proto"` // graphql-ws | graphql-transport-ws
	Steps     []step `json:"steps"`
	Script    string `json:"script"`   // resolver script: end | emit-end | emit2-end | emit-error | panic | block
	InitFunc  string `json:"initfunc"` // none | accept | reject | accept-payload
	KeepAlive bool   `json:"keepalive,omitempty"`
	InitTO    bool   `json:"init_timeout,omitempty"`
	PingPong  bool   `json:"pingpong,omitempty"`
	SrvCancel string `json:"server_cancel,omitempty"` // "" | plain | reason
}

func (s scen) name() string {
	var st []string
	for _, x := range s.Steps {
		st = append(st, x.String())
	}
	n := fmt.Sprintf("%s [%s] script=%s init=%s", s.Proto, strings.Join(st, " "), s.Script, s.InitFunc)
	if s.KeepAlive {
		n += " ka"
	}
	if s.InitTO {
		n += " init-timeout"
	}
	if s.PingPong {
		n += " pingpong"
	}
	if s.SrvCancel != "" {
		n += " srvcancel=" + s.SrvCancel
	}
	return n
}

type inst struct {
	sc         scen
	log        *handschema.Log
	conn       *rig.Conn
	rw         *rig.HijackRW
	parsed     int // bytes of conn.Out already parsed into frames
	hdrDone    bool
	closeFunc  int
	doReturned bool
	parseErr   string
}

func (in *inst) clientJSON(s step) []byte {
	tws := in.sc.Proto == "graphql-transport-ws"
	m := map[string]any{}
	switch s.Kind {
	case "init":
		m["type"] = "connection_init"
		m["payload"] = map[string]any{"token": "t"}
	case "init-bad":
		m["type"] = "connection_init"
		m["payload"] = []int{1}
	case "start", "start-query":
		m["type"] = "start"
		if tws {
			m["type"] = "subscribe"
		}
		m["id"] = strconv.Itoa(s.ID)
		q := fmt.Sprintf("subscription{s(n:%d)}", s.ID)
		if s.Kind == "start-query" {
			// single-result operations use their own id space (10+n)
			m["id"] = strconv.Itoa(10 + s.ID)
			q = fmt.Sprintf("{b(x:%d)}", s.ID)
		}
		m["payload"] = map[string]any{"query": q}
	case "start-badquery", "start-badpayload":
		// a start whose operation cannot be created: it is answered with error (+ complete)
		// under its id, which must not disturb a running operation with the same id
		m["type"] = "start"
		if tws {
			m["type"] = "subscribe"
		}
		m["id"] = strconv.Itoa(s.ID)
		if s.Kind == "start-badquery" {
			m["payload"] = map[string]any{"query": "subscription{"}
		} else {
			m["payload"] = "not an object"
		}
	case "stop":
		m["type"] = "stop"
		if tws {
			m["type"] = "complete"
		}
		m["id"] = strconv.Itoa(s.ID)
	case "ping":
		m["type"] = "ping"
	case "pong":
		m["type"] = "pong"
	case "terminate":
		m["type"] = "connection_terminate"
	case "unknown":
		m["type"] = "bogus"
	case "invalid":
		return []byte(`{"type":`)
	}
	b, _ := json.Marshal(m)
	return b
}

func (in *inst) onWrite(p []byte) {
	out := in.conn.Out
	if !in.hdrDone {
		i := bytes.Index(out, []byte("\r\n\r\n"))
		if i < 0 {
			return
		}
		in.hdrDone = true
		in.parsed = i + 4
		in.log.Add("http:%s", strings.SplitN(string(out[:i]), "\r\n", 2)[0])
	}
	frames, n, err := rig.ParseServerFrames(out[in.parsed:])
	if err != nil && in.parseErr == "" {
		in.parseErr = err.Error()
	}
	in.parsed += n
	for _, f := range frames {
		switch f.Op {
		case rig.OpText:
			var m struct {
				Type    string          `json:"type"`
				ID      string          `json:"id"`
				Payload json.RawMessage `json:"payload"`
			}
			if err := json.Unmarshal(f.Payload, &m); err != nil {
				in.log.Add("frame:BADJSON:%s", f.Payload)
				continue
			}
			in.log.Add("frame:%s:%s:%s", m.Type, m.ID, m.Payload)
		case rig.OpClose:
			code := 0
			if len(f.Payload) >= 2 {
				code = int(f.Payload[0])<<8 | int(f.Payload[1])
			}
			in.log.Add("frame:CLOSE:%d", code)
		default:
			in.log.Add("frame:OP%d", f.Op)
		}
	}
}

type detachedKey struct{}

func (in *inst) Body() {
	in.log = &handschema.Log{}
	hs := handschema.New(in.log)
	script := in.sc.Script
	hs.Sub = func(ctx context.Context, field string, args map[string]any, call int) handschema.SubStep {
		n := fmt.Sprint(args["n"])
		// every operation emits its OWN values (100*n + k): a result delivered under another
		// operation's id is visible
		base, _ := strconv.Atoi(n)
		base *= 100
		vrt.Yield("resolver " + n)
		end := func() handschema.SubStep {
			in.log.Add("sub-end:%s", n)
			return handschema.SubStep{Kind: "end"}
		}
		if ctx.Err() != nil {
			in.log.Add("cancelled:%s", n)
			return end()
		}
		switch script {
		case "end":
			return end()
		case "emit-end", "emit2-end":
			k := 1
			if script == "emit2-end" {
				k = 2
			}
			if call < k {
				return handschema.SubStep{Kind: "emit", Val: base + call + 1}
			}
			return end()
		case "emit-error":
			if call == 0 {
				return handschema.SubStep{Kind: "emit", Val: base + 1}
			}
			if call == 1 {
				in.log.Add("sub-end:%s", n)
				return handschema.SubStep{Kind: "error"}
			}
			return end()
		case "panic":
			in.log.Add("sub-end:%s", n)
			return handschema.SubStep{Kind: "panic"}
		default: // block until cancelled
			vrt.Recv(ctx.Done())
			in.log.Add("cancelled:%s", n)
			return end()
		}
	}
	in.conn = rig.NewConn()
	in.conn.OnWrite = in.onWrite
	in.rw = rig.NewHijackRW(in.conn)
	ws := transport.Websocket{
		CloseFunc: func(ctx context.Context, code int) {
			in.closeFunc++
			in.log.Add("closefunc:%d", code)
		},
	}
	switch in.sc.InitFunc {
	case "accept":
		ws.InitFunc = func(ctx context.Context, p transport.InitPayload) (context.Context, *transport.InitPayload, error) {
			in.log.Add("initfunc:accept")
			return ctx, nil, nil
		}
	case "accept-payload":
		ws.InitFunc = func(ctx context.Context, p transport.InitPayload) (context.Context, *transport.InitPayload, error) {
			in.log.Add("initfunc:accept")
			return ctx, &transport.InitPayload{"ok": true}, nil
		}
	case "accept-detached":
		// the context the init function hands back is NOT derived from the request context
		// (context.WithoutCancel + a value): only the transport's own close path can end
		// the operations of this connection
		ws.InitFunc = func(ctx context.Context, p transport.InitPayload) (context.Context, *transport.InitPayload, error) {
			in.log.Add("initfunc:accept")
			return context.WithValue(context.WithoutCancel(ctx), detachedKey{}, "x"), nil, nil
		}
	case "reject":
		ws.InitFunc = func(ctx context.Context, p transport.InitPayload) (context.Context, *transport.InitPayload, error) {
			in.log.Add("initfunc:reject")
			return ctx, nil, errors.New("forbidden")
		}
	}
	if in.sc.KeepAlive {
		ws.KeepAlivePingInterval = 10 * time.Second
		ws.PongOnlyInterval = 10 * time.Second
	}
	if in.sc.InitTO {
		ws.InitTimeout = time.Second
	}
	if in.sc.PingPong {
		ws.PingPongInterval = 10 * time.Second
	}
	srv := handler.New(hs)
	srv.AddTransport(ws)
	srv.SetRecoverFunc(func(ctx context.Context, err any) error {
		in.log.Add("recover-hook")
		return fmt.Errorf("internal error: %v", err)
	})
	ctx, cancel := context.WithCancel(context.Background())
	switch in.sc.SrvCancel {
	case "plain":
		vrt.AddEnv(&vrt.EnvEvent{Name: "server-context-cancelled", Enabled: func() bool { return !in.doReturned }, Fire: cancel})
	case "reason":
		ctx = transport.AppendCloseReason(ctx, "shutting down")
		vrt.AddEnv(&vrt.EnvEvent{Name: "server-context-cancelled", Enabled: func() bool { return !in.doReturned }, Fire: cancel})
	}
	req := rig.UpgradeRequest(in.sc.Proto).WithContext(ctx)
	// the scripted client
	vrt.Go("client", func() {
		for _, s := range in.sc.Steps {
			switch s.Kind {
			case "await-cancel":
				want := fmt.Sprintf("cancelled:%d", s.ID)
				vrt.Point("client awaits "+want, nil, func() int {
					if in.log.Count(want) > 0 || in.conn.Closed {
						return 1
					}
					return 0
				})
			case "await-terminated":
				// wait until the server has terminated operation ID (error or complete frame)
				pe, pc := fmt.Sprintf("frame:error:%d:", s.ID), fmt.Sprintf("frame:complete:%d:", s.ID)
				vrt.Point("client awaits termination", nil, func() int {
					if in.conn.Closed {
						return 1
					}
					for _, e := range in.log.Snapshot() {
						if strings.HasPrefix(e, pe) || strings.HasPrefix(e, pc) {
							return 1
						}
					}
					return 0
				})
				in.log.Add("client:saw-termination(%d)", s.ID)
			case "close-frame":
				vrt.Yield("client-send close")
				in.log.Add("client:close-frame")
				in.conn.Feed(rig.ClientFrame(rig.OpClose, []byte{0x03, 0xe8}))
			case "binary":
				vrt.Yield("client-send binary")
				in.conn.Feed(rig.ClientFrame(rig.OpBinary, []byte{1, 2, 3}))
			default:
				vrt.Yield("client-send " + s.String())
				in.log.Add("client:%s", s.String())
				in.conn.Feed(rig.ClientFrame(rig.OpText, in.clientJSON(s)))
			}
		}
		vrt.Yield("client-disconnect")
		in.log.Add("client:disconnect")
		in.conn.CloseClient()
	})
	srv.ServeHTTP(in.rw, req)
	in.doReturned = true
	in.log.Add("do-returned")
	cancel() // net/http cancels the request context when the handler returns
}

func (in *inst) Obs() string {
	if in.log == nil {
		return ""
	}
	return strings.Join(in.log.Snapshot(), "\n")
}

func (in *inst) Check(x *explore.Exec) (string, string) {
	ev := in.log.Snapshot()
	all := strings.Join(ev, "\n  ")
	switch x.Out.Kind {
	case "crash":
		v := x.Out.CrashVal
		if strings.Contains(v, "concurrent write") {
			return "ws:concurrent-frame-write", x.Out.Crash
		}
		if len(v) > 60 {
			v = v[:60]
		}
		return "ws:crash:" + v, x.Out.Crash
	case "horizon":
		return "", ""
	case "blocked":
		what := strings.Join(x.Out.Blocked, "; ")
		if !x.Out.MainDone {
			if strings.Contains(what, "client awaits cancelled") {
				return "ws:stop-did-not-cancel-operation", "the client stopped an operation and its context was never cancelled: " + what + "\n  " + all
			}
			return "ws:handler-never-returns", what + "\n  " + all
		}
		return "ws:goroutines-left-after-connection-end:" + blockSites(x.Out.Blocked), what + "\n  " + all
	}
	if in.parseErr != "" {
		return "ws:malformed-server-frame", in.parseErr
	}
	if len(in.conn.Concurrent) > 0 {
		return "ws:concurrent-frame-write", strings.Join(in.conn.Concurrent, "; ")
	}
	established := in.rw.Hijacked
	if established && in.closeFunc != 1 {
		return "ws:closefunc-count", fmt.Sprintf("close callback fired %d times for an established connection\n  %s", in.closeFunc, all)
	}
	// monitor over the ordered event log
	acked := false
	type opState struct {
		instances  int
		terminated bool // current instance has a complete/error
		completes  int
		errored    bool
		lastData   int
		active     bool
		failed     bool // the instance is a start that could not be executed: only error/complete may follow
	}
	pendingBad := map[string]int{} // id -> starts sent that cannot be executed and are not yet answered
	ops := map[string]*opState{}
	get := func(id string) *opState {
		if ops[id] == nil {
			ops[id] = &opState{}
		}
		return ops[id]
	}
	closed := false
	// id release: once the client has SEEN the termination of an operation, a new start with
	// that id must be accepted and executed (unless the connection went away)
	for i, e := range ev {
		if !strings.HasPrefix(e, "client:saw-termination(") {
			continue
		}
		id := strings.TrimSuffix(strings.TrimPrefix(e, "client:saw-termination("), ")")
		restarted, executed, gone := false, false, false
		for _, l := range ev[i+1:] {
			if l == "client:start("+id+")" && !gone {
				restarted = true
			}
			if restarted && l == "resolver:Subscription.s(n:"+id+")" {
				executed = true
			}
			if !restarted && (strings.HasPrefix(l, "frame:CLOSE") || l == "client:disconnect") {
				gone = true
			}
		}
		if restarted && !executed {
			return "ws:id-not-released-after-termination", fmt.Sprintf("operation %s had terminated (the client saw it), a new start with that id was not executed\n  %s", id, all)
		}
	}
	for i, e := range ev {
		switch {
		case strings.HasPrefix(e, "frame:connection_ack"):
			acked = true
		case strings.HasPrefix(e, "exec:"), strings.HasPrefix(e, "resolver:"):
			if !acked {
				return "ws:execution-before-accepted-init", fmt.Sprintf("event %q before connection_ack\n  %s", e, all)
			}
			if in.sc.InitFunc == "reject" {
				return "ws:execution-after-rejected-init", all
			}
			if strings.HasPrefix(e, "resolver:Subscription.s(n:") || strings.HasPrefix(e, "resolver:Query.b(x:") {
				id := strings.TrimSuffix(strings.TrimPrefix(e, "resolver:Subscription.s(n:"), ")")
				if strings.HasPrefix(e, "resolver:Query.b(x:") {
					n, _ := strconv.Atoi(strings.TrimSuffix(strings.TrimPrefix(e, "resolver:Query.b(x:"), ")"))
					id = strconv.Itoa(10 + n)
				}
				o := get(id)
				// (once the connection is closed nothing is streamed any more: a start that was
				// already buffered may still be executed and is cancelled at once; two streams
				// under one id need an open connection)
				if o.active && !o.terminated && !closed {
					return "ws:start-with-active-id-accepted", fmt.Sprintf("operation id %s was started again while its previous instance was still running\n  %s", id, all)
				}
				*o = opState{instances: o.instances + 1, active: true}
			}
		case strings.HasPrefix(e, "client:start-badquery("), strings.HasPrefix(e, "client:start-badpayload("):
			id := strings.TrimSuffix(e[strings.Index(e, "(")+1:], ")")
			pendingBad[id]++
		case strings.HasPrefix(e, "frame:CLOSE"), strings.HasPrefix(e, "closefunc:"):
			closed = true
		case strings.HasPrefix(e, "frame:data:"), strings.HasPrefix(e, "frame:next:"), strings.HasPrefix(e, "frame:error:"), strings.HasPrefix(e, "frame:complete:"):
			parts := strings.SplitN(e, ":", 4)
			kind, id := parts[1], parts[2]
			o := get(id)
			if o.terminated && pendingBad[id] > 0 && !(kind == "complete" && o.errored && o.completes == 0) {
				// the previous instance has terminated and the client has sent another start with
				// this id that cannot be executed: this frame opens the answer to that start
				pendingBad[id]--
				*o = opState{instances: o.instances + 1, failed: true}
			}
			if o.failed && (kind == "data" || kind == "next") {
				return "ws:frame-after-complete", fmt.Sprintf("event %d %q: a result under id %s after that id was terminated by the answer to a start that cannot be executed\n  %s", i, e, id, all)
			}
			if o.completes > 0 {
				return "ws:frame-after-complete", fmt.Sprintf("event %d %q after the completion of id %s\n  %s", i, e, id, all)
			}
			switch kind {
			case "data", "next":
				if o.errored {
					return "ws:result-after-error", fmt.Sprintf("%q after an error for id %s\n  %s", e, id, all)
				}
				var p struct {
					Data map[string]any `json:"data"`
				}
				json.Unmarshal([]byte(parts[3]), &p)
				if v, ok := p.Data["s"].(float64); ok {
					idn, _ := strconv.Atoi(id)
					if int(v) != idn*100+o.lastData+1 {
						return "ws:results-out-of-order", fmt.Sprintf("id %s: result %d after %d results (operation n emits 100n+1, 100n+2, ...)\n  %s", id, int(v), o.lastData, all)
					}
					o.lastData++
				}
			case "error":
				o.errored = true
				o.terminated = true
			case "complete":
				o.completes++
				o.terminated = true
			}
		case strings.HasPrefix(e, "sub-end:"):
			id := strings.TrimPrefix(e, "sub-end:")
			o := get(id)
			if !closed && o.active {
				// the source ended while the connection was open: a terminator must follow
				found := false
				for _, l := range ev[i+1:] {
					if strings.HasPrefix(l, "frame:complete:"+id+":") || strings.HasPrefix(l, "frame:error:"+id+":") {
						found = true
					}
					if strings.HasPrefix(l, "frame:CLOSE") || strings.HasPrefix(l, "closefunc:") || l == "client:disconnect" || l == "client:close-frame" || strings.HasPrefix(l, "client:terminate") {
						// the connection went away before the terminator could be written
						found = true
					}
				}
				if !found {
					return "ws:operation-not-terminated", fmt.Sprintf("operation %s ended while the connection was open but neither error nor complete was sent\n  %s", id, all)
				}
			}
		}
	}
	return "", ""
}

func blockSites(bl []string) string {
	seen := map[string]bool{}
	var out []string
	for _, b := range bl {
		i, j := strings.Index(b, "@"), strings.LastIndex(b, ": ")
		if i < 0 || j < 0 {
			continue
		}
		site := b[i+1 : j]
		if k := strings.LastIndex(site, "/"); k >= 0 {
			site = site[k+1:]
		}
		if !seen[site] {
			seen[site] = true
			out = append(out, site)
		}
	}
	return strings.Join(out, ",")
}

func scenarios(tier string) []*explore.Scenario {
	var out []*explore.Scenario
	one, two := 1, 2
	add := func(s scen, bound *int) {
		s2 := s
		out = append(out, &explore.Scenario{Name: s.name(), Bound: bound, Meta: s2, New: func() explore.Instance { return &inst{sc: s2} }})
	}
	for _, proto := range []string{"graphql-ws", "graphql-transport-ws"} {
		var alpha []step
		alpha = append(alpha, step{Kind: "start", ID: 1}, step{Kind: "start", ID: 2}, step{Kind: "stop", ID: 1}, step{Kind: "start-query", ID: 1}, step{Kind: "invalid"}, step{Kind: "unknown"})
		if proto == "graphql-ws" {
			alpha = append(alpha, step{Kind: "terminate"})
		} else {
			alpha = append(alpha, step{Kind: "ping"}, step{Kind: "pong"})
		}
		L := 2
		bound := &one
		if tier == "thorough" {
			L = 3
			bound = &two
		}
		// sequences after an accepted init
		var rec func(prefix []step)
		rec = func(prefix []step) {
			if len(prefix) > 0 {
				for _, script := range []string{"emit-end", "block"} {
					add(scen{Proto: proto, Steps: append([]step{{Kind: "init"}}, prefix...), Script: script, InitFunc: "none"}, bound)
				}
			}
			if len(prefix) == L {
				return
			}
			for _, a := range alpha {
				rec(append(append([]step{}, prefix...), a))
			}
		}
		rec(nil)
		// handshake variants
		for _, first := range []step{{Kind: "init"}, {Kind: "init-bad"}, {Kind: "start", ID: 1}, {Kind: "invalid"}, {Kind: "unknown"}, {Kind: "binary"}, {Kind: "close-frame"}} {
			for _, initf := range []string{"none", "accept", "accept-payload", "reject"} {
				add(scen{Proto: proto, Steps: []step{first, {Kind: "start", ID: 1}}, Script: "emit-end", InitFunc: initf}, &two)
			}
			add(scen{Proto: proto, Steps: []step{first}, Script: "end", InitFunc: "accept", InitTO: true}, &two)
		}
		add(scen{Proto: proto, Steps: nil, Script: "end", InitFunc: "none", InitTO: true}, &two)
		// resolver scripts, stop semantics, timers, server-side cancellation
		for _, script := range []string{"end", "emit2-end", "emit-error", "panic"} {
			add(scen{Proto: proto, Steps: []step{{Kind: "init"}, {Kind: "start", ID: 1}}, Script: script, InitFunc: "accept"}, &two)
		}
		add(scen{Proto: proto, Steps: []step{{Kind: "init"}, {Kind: "start", ID: 1}, {Kind: "stop", ID: 1}, {Kind: "await-cancel", ID: 1}}, Script: "block", InitFunc: "none"}, &two)
		add(scen{Proto: proto, Steps: []step{{Kind: "init"}, {Kind: "start", ID: 1}, {Kind: "start", ID: 2}, {Kind: "stop", ID: 2}, {Kind: "await-cancel", ID: 2}}, Script: "block", InitFunc: "none"}, &one)
		// id re-use after the previous instance terminated by itself (end / error / panic)
		for _, script := range []string{"emit-end", "emit-error", "panic"} {
			add(scen{Proto: proto, Steps: []step{{Kind: "init"}, {Kind: "start", ID: 1}, {Kind: "await-terminated", ID: 1}, {Kind: "start", ID: 1}, {Kind: "await-terminated", ID: 1}}, Script: script, InitFunc: "none"}, &one)
		}
		// an init function whose context is detached from the request context: the connection's
		// own close path must still cancel the operations and fire the close callback
		for _, script := range []string{"block", "emit-end"} {
			add(scen{Proto: proto, Steps: []step{{Kind: "init"}, {Kind: "start", ID: 1}}, Script: script, InitFunc: "accept-detached"}, &two)
			add(scen{Proto: proto, Steps: []step{{Kind: "init"}, {Kind: "start", ID: 1}, {Kind: "close-frame"}}, Script: script, InitFunc: "accept-detached"}, &one)
		}
		add(scen{Proto: proto, Steps: []step{{Kind: "init"}, {Kind: "start", ID: 1}, {Kind: "stop", ID: 1}, {Kind: "await-cancel", ID: 1}}, Script: "block", InitFunc: "accept-detached"}, &one)
		// ... also with the keep-alive / pong-only timers configured: their goroutines end with the connection
		add(scen{Proto: proto, Steps: []step{{Kind: "init"}, {Kind: "start", ID: 1}}, Script: "emit-end", InitFunc: "accept-detached", KeepAlive: true}, &one)
		add(scen{Proto: proto, Steps: []step{{Kind: "init"}, {Kind: "start", ID: 1}, {Kind: "close-frame"}}, Script: "block", InitFunc: "accept-detached", KeepAlive: true}, &one)
		// two closers overlapping: the server context is cancelled while a client frame makes the
		// server close the connection as well (the close callback still fires exactly once)
		for _, sc := range []string{"plain", "reason"} {
			add(scen{Proto: proto, Steps: []step{{Kind: "init"}, {Kind: "start", ID: 1}, {Kind: "invalid"}}, Script: "block", InitFunc: "none", SrvCancel: sc}, &two)
			if proto == "graphql-ws" {
				add(scen{Proto: proto, Steps: []step{{Kind: "init"}, {Kind: "start", ID: 1}, {Kind: "terminate"}}, Script: "block", InitFunc: "none", SrvCancel: sc}, &two)
			}
		}
		// two operations emitting on one connection: every frame carries its own operation's data
		for _, script := range []string{"emit-end", "emit2-end"} {
			add(scen{Proto: proto, Steps: []step{{Kind: "init"}, {Kind: "start", ID: 1}, {Kind: "start", ID: 2}}, Script: script, InitFunc: "none"}, &two)
		}
		// a start that fails before execution (unparsable query / payload) re-using the id of a running operation
		for _, bad := range []string{"start-badquery", "start-badpayload"} {
			for _, script := range []string{"block", "emit-end", "emit2-end"} {
				add(scen{Proto: proto, Steps: []step{{Kind: "init"}, {Kind: "start", ID: 1}, {Kind: bad, ID: 1}}, Script: script, InitFunc: "none"}, &two)
			}
			add(scen{Proto: proto, Steps: []step{{Kind: "init"}, {Kind: bad, ID: 1}, {Kind: "start", ID: 1}}, Script: "emit-end", InitFunc: "none"}, &one)
			add(scen{Proto: proto, Steps: []step{{Kind: "init"}, {Kind: "start", ID: 1}, {Kind: bad, ID: 2}}, Script: "emit-end", InitFunc: "none"}, &one)
			// the id of a start that could not be executed is free again once its answer was seen
			add(scen{Proto: proto, Steps: []step{{Kind: "init"}, {Kind: bad, ID: 1}, {Kind: "await-terminated", ID: 1}, {Kind: "start", ID: 1}}, Script: "emit-end", InitFunc: "none"}, &one)
		}
		// id re-use right after a stop: the first instance may still be tearing down
		for _, script := range []string{"block", "emit-end"} {
			add(scen{Proto: proto, Steps: []step{{Kind: "init"}, {Kind: "start", ID: 1}, {Kind: "stop", ID: 1}, {Kind: "start", ID: 1}}, Script: script, InitFunc: "none"}, &two)
		}
		add(scen{Proto: proto, Steps: []step{{Kind: "init"}, {Kind: "start", ID: 1}, {Kind: "stop", ID: 1}, {Kind: "start", ID: 1}, {Kind: "stop", ID: 1}, {Kind: "await-cancel", ID: 1}}, Script: "block", InitFunc: "none"}, &one)
		add(scen{Proto: proto, Steps: []step{{Kind: "init"}, {Kind: "start", ID: 1}, {Kind: "close-frame"}}, Script: "block", InitFunc: "none"}, &two)
		add(scen{Proto: proto, Steps: []step{{Kind: "init"}, {Kind: "start", ID: 1}}, Script: "emit2-end", InitFunc: "none", KeepAlive: true}, &two)
		add(scen{Proto: proto, Steps: []step{{Kind: "init"}, {Kind: "start", ID: 1}}, Script: "block", InitFunc: "none", KeepAlive: true}, &two)
		for _, sc := range []string{"plain", "reason"} {
			add(scen{Proto: proto, Steps: []step{{Kind: "init"}, {Kind: "start", ID: 1}}, Script: "block", InitFunc: "none", SrvCancel: sc}, &two)
			add(scen{Proto: proto, Steps: []step{{Kind: "init"}, {Kind: "start", ID: 1}, {Kind: "start", ID: 2}}, Script: "emit-end", InitFunc: "none", SrvCancel: sc}, &one)
		}
		if proto == "graphql-transport-ws" {
			add(scen{Proto: proto, Steps: []step{{Kind: "init"}, {Kind: "start", ID: 1}, {Kind: "pong"}}, Script: "emit-end", InitFunc: "none", PingPong: true}, &two)
			add(scen{Proto: proto, Steps: []step{{Kind: "init"}, {Kind: "start", ID: 1}}, Script: "block", InitFunc: "none", PingPong: true}, &two)
		}
	}
	return out
}

func main() {
	vtime.MaxTicks = 2
	explore.Main(explore.Options{
		Prop: "C11", Level: "model_checking",
		Cfg:       func(string) explore.Config { return explore.Config{Bound: 2, MaxSteps: 20000} },
		Scenarios: scenarios,
		BudgetQ:   120 * time.Second, BudgetT: 13 * time.Minute,
		Assume: []string{
			"the connection is an in-memory net.Conn with modelled blocking reads; gorilla/websocket's conn.go is instrumented (its write-lock channel and concurrent-write detector are live), the rest of gorilla is trusted",
			"the scripted client sends its frames at arbitrary moments (each send is a scheduling point) and finally disconnects; timers fire only as environment events; timing is abstracted to orderings",
			"subscription sources are scripted by the harness (end, emit*, error, panic, block until cancelled)",
		},
	})
}

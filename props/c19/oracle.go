package main

// The oracle is written from the property statement only. It looks at the Go files of the
// resolver package before and after ONE generator run (plus the schema the run was for) and
// never at anything gqlgen computed.
//
//  1. every file of the resolver package parses (go/parser);
//  2. every resolver method present before whose field still exists is present after with
//     the same body token stream (comments included), the same doc comment and the same
//     result names - both sides normalised with go/format first ("modulo gofmt");
//  3. the imports such a method's body refers to are imported, under the same name, by the
//     file that now holds the method; blank and dot imports stay in their file;
//  4. the source text of every other declaration (helpers, types, vars, consts, methods of
//     removed or renamed fields ...) still occurs in some file of the package, live or
//     inside a comment;
//  5. if the package held nothing but resolver methods, compiled, and the schema change only
//     added fields, `go build ./...` still succeeds.

import (
	"fmt"
	"go/ast"
	"go/format"
	"go/parser"
	"go/scanner"
	"go/token"
	"path"
	"regexp"
	"sort"
	"strconv"
	"strings"
)

type Complaint struct {
	Sig  string `json:"signature"`
	What string `json:"what"`
}

type OracleStats struct {
	Methods     int  // surviving methods compared
	Decls       int  // other declarations looked up
	Imports     int  // import requirements checked
	Masked      int  // checks that could not be evaluated because a file did not parse
	Compiled    bool // clause 5 was applicable and evaluated
	PostInvalid bool // some file of the package does not parse after the run
}

type impRef struct{ Name, Path string } // Name: explicit local name or "" for none

func (i impRef) local() string {
	if i.Name != "" {
		return i.Name
	}
	return path.Base(i.Path)
}

type methodInfo struct {
	Key     string
	File    string
	Doc     []string
	Results []string
	Body    []string // normalised token stream
	Uses    []impRef // imports of File that the body refers to
}

type declInfo struct {
	File string
	Kind string
	Name string
	Text string // original source text d.Pos()..d.End()
}

type parsedFile struct {
	Opt     Opts // resolver options of the tree (custom resolver.type -> canonical names)
	Path    string
	Src     string // as on disk
	Fmt     string // go/format of Src (== Src when formatting failed)
	Err     error  // parse error of Src
	Fset    *token.FileSet
	File    *ast.File // parsed from Fmt
	Imports []impRef
}

func parseFile(p, src string, opt Opts) *parsedFile {
	pf := &parsedFile{Opt: opt, Path: p, Src: src, Fmt: src}
	fs0 := token.NewFileSet()
	if _, err := parser.ParseFile(fs0, p, src, parser.ParseComments|parser.AllErrors); err != nil {
		pf.Err = err
		return pf
	}
	if b, err := format.Source([]byte(src)); err == nil {
		pf.Fmt = string(b)
	}
	pf.Fset = token.NewFileSet()
	f, err := parser.ParseFile(pf.Fset, p, pf.Fmt, parser.ParseComments)
	if err != nil {
		pf.Err = err
		return pf
	}
	pf.File = f
	for _, is := range f.Imports {
		ip, _ := strconv.Unquote(is.Path.Value)
		n := ""
		if is.Name != nil {
			n = is.Name.Name
		}
		pf.Imports = append(pf.Imports, impRef{n, ip})
	}
	return pf
}

func (pf *parsedFile) text(a, b token.Pos) string {
	return pf.Fmt[pf.Fset.Position(a).Offset:pf.Fset.Position(b).Offset]
}

// tokens returns the token stream of a Go source fragment: kind and literal of every token,
// comments included, automatic and explicit semicolons dropped (gofmt may exchange them),
// comment text normalised for the white space gofmt is free to change.
func tokens(src string) []string {
	var s scanner.Scanner
	fset := token.NewFileSet()
	file := fset.AddFile("", fset.Base(), len(src))
	s.Init(file, []byte(src), func(token.Position, string) {}, scanner.ScanComments)
	var out []string
	for {
		_, tok, lit := s.Scan()
		if tok == token.EOF {
			break
		}
		if tok == token.SEMICOLON {
			continue
		}
		if tok == token.COMMENT {
			lit = normComment(lit)
		}
		if lit == "" {
			lit = tok.String()
		}
		out = append(out, tok.String()+" "+lit)
	}
	return out
}

func normComment(c string) string {
	lines := strings.Split(c, "\n")
	for i := range lines {
		lines[i] = strings.TrimSpace(lines[i])
	}
	return strings.Join(lines, "\n")
}

func normLines(s string) string {
	var out []string
	for _, l := range strings.Split(s, "\n") {
		l = strings.TrimSpace(l)
		if l != "" {
			out = append(out, l)
		}
	}
	return strings.Join(out, "\n")
}

func containsSeq(hay, needle []string) bool {
	if len(needle) == 0 {
		return true
	}
outer:
	for i := 0; i+len(needle) <= len(hay); i++ {
		for j := range needle {
			if hay[i+j] != needle[j] {
				continue outer
			}
		}
		return true
	}
	return false
}

func eqSeq(a, b []string) bool {
	if len(a) != len(b) {
		return false
	}
	for i := range a {
		if a[i] != b[i] {
			return false
		}
	}
	return true
}

func firstDiff(a, b []string) string {
	n := len(a)
	if len(b) < n {
		n = len(b)
	}
	for i := 0; i < n; i++ {
		if a[i] != b[i] {
			return fmt.Sprintf("token %d: before %q, after %q", i, a[i], b[i])
		}
	}
	if len(a) > n {
		return fmt.Sprintf("token %d: before %q, after <end>", n, a[n])
	}
	if len(b) > n {
		return fmt.Sprintf("token %d: before <end>, after %q", n, b[n])
	}
	return "equal"
}

// methods extracts the methods on *xxxResolver types of a parsed file.
func (pf *parsedFile) methods() []methodInfo {
	var out []methodInfo
	if pf.File == nil {
		return nil
	}
	for _, d := range pf.File.Decls {
		fd, ok := d.(*ast.FuncDecl)
		if !ok || fd.Body == nil {
			continue
		}
		recv := pf.Opt.canon(recvTypeName(fd))
		if recv == "" {
			continue
		}
		mi := methodInfo{Key: recv + "." + fd.Name.Name, File: pf.Path}
		if fd.Doc != nil {
			for _, c := range fd.Doc.List {
				mi.Doc = append(mi.Doc, normComment(c.Text))
			}
		}
		if fd.Type.Results != nil {
			for _, r := range fd.Type.Results.List {
				if len(r.Names) == 0 {
					mi.Results = append(mi.Results, "<unnamed>")
				}
				for _, n := range r.Names {
					mi.Results = append(mi.Results, n.Name)
				}
			}
		}
		mi.Body = tokens(pf.text(fd.Body.Lbrace+1, fd.Body.Rbrace))
		seen := map[string]bool{}
		ast.Inspect(fd.Body, func(n ast.Node) bool {
			se, ok := n.(*ast.SelectorExpr)
			if !ok {
				return true
			}
			id, ok := se.X.(*ast.Ident)
			if !ok || id.Obj != nil || seen[id.Name] {
				return true
			}
			for _, im := range pf.Imports {
				if im.Name != "_" && im.Name != "." && im.local() == id.Name {
					seen[id.Name] = true
					mi.Uses = append(mi.Uses, im)
				}
			}
			return true
		})
		out = append(out, mi)
	}
	return out
}

// otherDecls lists every non-import declaration that is not a method in `survivors`.
func (pf *parsedFile) otherDecls(orig *parsedFile0, survivors map[string]bool) []declInfo {
	var out []declInfo
	for _, d := range orig.File.Decls {
		di := declInfo{File: pf.Path, Text: orig.Src[orig.Fset.Position(d.Pos()).Offset:orig.Fset.Position(d.End()).Offset]}
		switch x := d.(type) {
		case *ast.GenDecl:
			if x.Tok == token.IMPORT {
				continue
			}
			di.Kind = x.Tok.String()
			if len(x.Specs) > 0 {
				switch sp := x.Specs[0].(type) {
				case *ast.TypeSpec:
					di.Name = sp.Name.Name
				case *ast.ValueSpec:
					di.Name = sp.Names[0].Name
				}
			}
		case *ast.FuncDecl:
			recv := pf.Opt.canon(recvTypeName(x))
			di.Name = x.Name.Name
			switch {
			case recv == "":
				di.Kind = "func"
			case survivors[recv+"."+x.Name.Name]:
				continue
			default:
				di.Kind = "method"
				di.Name = recv + "." + x.Name.Name
			}
		default:
			di.Kind = "other"
		}
		out = append(out, di)
	}
	return out
}

// parsedFile0 is a parse of the file exactly as on disk (no formatting), used for source text.
type parsedFile0 struct {
	Src  string
	Fset *token.FileSet
	File *ast.File
}

func parseOrig(p, src string) *parsedFile0 {
	fs := token.NewFileSet()
	f, err := parser.ParseFile(fs, p, src, parser.ParseComments)
	if err != nil {
		return nil
	}
	return &parsedFile0{Src: src, Fset: fs, File: f}
}

// templateImports are the packages resolver.gotpl reserves itself (input class description only).
var templateImports = map[string]bool{"context": true, "fmt": true, "io": true, "strconv": true, "time": true, "sync": true, "errors": true, "bytes": true}

var buildErrRe = regexp.MustCompile(`(?m)^[^\s:]+\.go:\d+:\d+: (.*)$`)

func goFiles(m map[string]string) []string {
	var out []string
	for p := range m {
		if strings.HasSuffix(p, ".go") {
			out = append(out, p)
		}
	}
	sort.Strings(out)
	return out
}

// onlyResolverMethods implements "the resolver files held only resolver methods": every
// declaration is an import, a method of a schema field of `gen` on its xxxResolver type, the
// accessor method on Resolver, or the declaration of Resolver / an xxxResolver struct.
func onlyResolverMethods(files []*parsedFile, gen Schema) bool {
	fields := gen.resolverFields()
	objects := map[string]bool{}
	for _, t := range gen.Types {
		objects[t.Name] = true
	}
	for _, pf := range files {
		if pf.File == nil {
			return false
		}
		for _, d := range pf.File.Decls {
			switch x := d.(type) {
			case *ast.GenDecl:
				if x.Tok == token.IMPORT {
					continue
				}
				if x.Tok != token.TYPE || len(x.Specs) != 1 {
					return false
				}
				n := pf.Opt.canon(x.Specs[0].(*ast.TypeSpec).Name.Name)
				if n != "Resolver" && !(strings.HasSuffix(n, "Resolver") && objects[ucFirst(strings.TrimSuffix(n, "Resolver"))]) {
					return false
				}
			case *ast.FuncDecl:
				recv := pf.Opt.canon(recvTypeName(x))
				switch {
				case recv == "Resolver" && objects[x.Name.Name]:
				case fields[recv+"."+x.Name.Name]:
				default:
					return false
				}
			default:
				return false
			}
		}
	}
	return true
}

// Oracle evaluates one generator run. build is called only when clause 5 applies.
func Oracle(spec TreeSpec, pre *State, post map[string]string, build func() (bool, string)) ([]Complaint, OracleStats) {
	var cs []Complaint
	var st OracleStats
	add := func(sig, format string, a ...any) {
		cs = append(cs, Complaint{Sig: sig, What: fmt.Sprintf(format, a...)})
	}

	// ---- pre side
	var preFiles []*parsedFile
	preOrig := map[string]*parsedFile0{}
	for _, p := range goFiles(pre.Go) {
		pf := parseFile(p, pre.Go[p], pre.Opts)
		if pf.Err != nil {
			// The tree was already invalid before this run; nothing can be extracted from it.
			st.Masked++
			return nil, st
		}
		preFiles = append(preFiles, pf)
		preOrig[p] = parseOrig(p, pre.Go[p])
	}
	fieldsNow := pre.Cur.resolverFields()
	preMethods := map[string][]methodInfo{}
	for _, pf := range preFiles {
		for _, m := range pf.methods() {
			preMethods[m.Key] = append(preMethods[m.Key], m)
		}
	}
	survivors := map[string]bool{}
	for k := range preMethods {
		if fieldsNow[k] {
			survivors[k] = true
		}
	}

	// ---- post side, clause 1
	var postFiles []*parsedFile
	postByPath := map[string]*parsedFile{}
	invalid := 0
	for _, p := range goFiles(post) {
		pf := parseFile(p, post[p], pre.Opts)
		postFiles = append(postFiles, pf)
		postByPath[p] = pf
		if pf.Err == nil {
			continue
		}
		invalid++
		st.PostInvalid = true
		// input class: a declaration that had to go to the trailing comment block of this
		// file contains the comment terminator
		term := ""
		if o := preOrig[p]; o != nil {
			for _, d := range (&parsedFile{Opt: pre.Opts, Path: p}).otherDecls(o, survivors) {
				if strings.Contains(d.Text, "*/") {
					term = d.Kind + " " + d.Name
					break
				}
			}
		}
		if term != "" {
			add("leftover-contains-comment-terminator", "%s is not valid Go after regeneration (%v); the left-over declaration %s contains \"*/\" and was pasted inside /* ... */", p, firstErr(pf.Err), term)
		} else {
			add("invalid-go-output", "%s is not valid Go after regeneration: %v", p, firstErr(pf.Err))
		}
	}

	// ---- clause 2 and 3: surviving methods
	postMethods := map[string][]methodInfo{}
	for _, pf := range postFiles {
		for _, m := range pf.methods() {
			postMethods[m.Key] = append(postMethods[m.Key], m)
		}
	}
	var keys []string
	for k := range survivors {
		keys = append(keys, k)
	}
	sort.Strings(keys)
	for _, k := range keys {
		pres, posts := preMethods[k], postMethods[k]
		elem := spec.labelOf(k)
		if len(posts) == 0 {
			if invalid > 0 {
				st.Masked++
				continue
			}
			add("resolver-method-lost:"+elem, "method %s (field still in the schema) is gone after regeneration", k)
			continue
		}
		st.Methods++
		// preserved iff some copy after equals some copy before in body, doc and result names
		var matched *methodInfo
		var from *methodInfo
		for i := range posts {
			for j := range pres {
				if eqSeq(posts[i].Body, pres[j].Body) && (len(pres[j].Doc) == 0 || eqSeq(posts[i].Doc, pres[j].Doc)) && eqSeq(posts[i].Results, pres[j].Results) {
					matched, from = &posts[i], &pres[j]
				}
			}
		}
		if matched == nil {
			a, b := pres[0], posts[0]
			if !eqSeq(a.Body, b.Body) {
				add("body-changed:"+elem, "body of %s changed: %s", k, firstDiff(a.Body, b.Body))
			}
			if len(a.Doc) > 0 && !eqSeq(a.Doc, b.Doc) {
				add("doc-comment-changed:"+elem, "doc comment of %s changed: before %q after %q", k, a.Doc, b.Doc)
			}
			if !eqSeq(a.Results, b.Results) {
				add("named-results-changed:"+elem, "result names of %s changed: before %v after %v", k, a.Results, b.Results)
			}
			if !eqSeq(a.Body, b.Body) {
				// clause 3 is about the imports a KEPT body refers to; this body was not kept
				// (reported above) and what replaced it has its own needs
				continue
			}
			matched, from = &b, &a
		}
		// clause 3 for this method
		g := postByPath[matched.File]
		for _, u := range from.Uses {
			st.Imports++
			ok := false
			for _, im := range g.Imports {
				if im.Path == u.Path && im.local() == u.local() {
					ok = true
				}
			}
			if ok {
				continue
			}
			sig := "import-lost:" + strings.TrimSpace(u.Name+" "+strconv.Quote(u.Path))
			switch {
			case matched.File != from.File:
				sig = "import-lost:method-moved-to-another-file"
			case u.Name != "" && templateImports[u.Path]:
				sig = "import-lost:alias-of-package-the-template-imports"
			case u.Name != "" && u.Name != path.Base(u.Path) && strings.HasSuffix(u.Path, u.Name):
				sig = "import-lost:alias-is-suffix-of-import-path"
			}
			add(sig, "%s (in %s before, %s after) refers to %q, imported before as `%s %q`; after regeneration %s does not import it under that name", k, from.File, matched.File, u.local(), u.Name, u.Path, matched.File)
		}
	}
	// clause 3: blank and dot imports stay in their file
	for _, pf := range preFiles {
		g := postByPath[pf.Path]
		if g == nil || g.Err != nil {
			continue
		}
		count := map[string]int{}
		for _, im := range pf.Imports {
			count[im.Name]++
		}
		for _, im := range pf.Imports {
			if im.Name != "_" && im.Name != "." {
				continue
			}
			st.Imports++
			ok := false
			for _, jm := range g.Imports {
				if jm == im {
					ok = true
				}
			}
			if ok {
				continue
			}
			sig := "import-lost:" + im.Name + " " + strconv.Quote(im.Path)
			if count[im.Name] > 1 {
				sig = map[string]string{"_": "import-lost:one-of-several-blank-imports", ".": "import-lost:one-of-several-dot-imports"}[im.Name]
			}
			add(sig, "%s imported `%s %q` before regeneration and does not after", pf.Path, im.Name, im.Path)
		}
	}

	// ---- clause 4: every other declaration's source text is still somewhere
	var hayText []string
	var hayToks [][]string
	for _, pf := range postFiles {
		hayText = append(hayText, normLines(pf.Src))
		hayToks = append(hayToks, tokens(pf.Src))
		if pf.File != nil {
			// code kept inside comments: the interior of a block comment, or a run of line
			// comments with the "//" and at most one blank removed
			for _, cg := range pf.File.Comments {
				var lines []string
				for _, c := range cg.List {
					if strings.HasPrefix(c.Text, "/*") {
						hayToks = append(hayToks, tokens(strings.TrimSuffix(strings.TrimPrefix(c.Text, "/*"), "*/")))
					} else {
						lines = append(lines, strings.TrimPrefix(strings.TrimPrefix(c.Text, "//"), " "))
					}
				}
				if len(lines) > 0 {
					t := strings.Join(lines, "\n")
					hayText = append(hayText, normLines(t))
					hayToks = append(hayToks, tokens(t))
				}
			}
		}
	}
	for _, pf := range preFiles {
		for _, d := range pf.otherDecls(preOrig[pf.Path], survivors) {
			st.Decls++
			found := false
			nt := normLines(d.Text)
			for _, h := range hayText {
				if strings.Contains(h, nt) {
					found = true
				}
			}
			if !found {
				dt := tokens(d.Text)
				for _, h := range hayToks {
					if containsSeq(h, dt) {
						found = true
					}
				}
			}
			if found {
				continue
			}
			kind := d.Kind
			if d.Kind == "method" {
				if pre.Gen.resolverFields()[d.Name] {
					kind = "method-of-removed-field:" + spec.labelOf(d.Name)
				} else if strings.HasPrefix(d.Name, "Resolver.") {
					kind = "method-on-Resolver"
				}
			}
			add("declaration-lost:"+kind, "%s %s of %s is nowhere in the package after regeneration (not even in a comment): %q", d.Kind, d.Name, pf.Path, clip(d.Text, 160))
		}
	}

	// ---- clause 5
	// With preserve_resolver existing resolver files are documented not to follow schema
	// changes ("IT WILL NOT BE UPDATED WITH SCHEMA CHANGES"): resolvers are then not
	// regenerated at all and the clause only applies to a run without a schema change.
	notRegenerated := pre.Opts.Preserve && !addOnly(pre.Cur, pre.Gen)
	if pre.Compiles == 1 && !notRegenerated && addOnly(pre.Gen, pre.Cur) && onlyResolverMethods(preFiles, pre.Gen) {
		st.Compiled = true
		ok, out := build()
		if !ok {
			kinds := map[string]bool{}
			for _, m := range buildErrRe.FindAllStringSubmatch(out, -1) {
				kinds[m[1]] = true
			}
			var ks []string
			for k := range kinds {
				ks = append(ks, k)
			}
			sort.Strings(ks)
			if len(ks) == 0 {
				ks = []string{"unrecognised build output"}
			}
			for _, k := range ks {
				add("compile-broken-after-add-only-change:"+k, "the package held only resolver methods and compiled, the schema change only added fields, and `go build ./...` fails after regeneration:\n%s", clip(out, 600))
			}
		}
	}
	return cs, st
}

func firstErr(err error) string {
	if el, ok := err.(scanner.ErrorList); ok && len(el) > 0 {
		return fmt.Sprintf("line %d: %s", el[0].Pos.Line, el[0].Msg)
	}
	return err.Error()
}

func clip(s string, n int) string {
	if len(s) > n {
		return s[:n] + "..."
	}
	return s
}

package main

import (
	"crypto/sha256"
	"encoding/hex"
	"fmt"
	"go/ast"
	"go/parser"
	"go/token"
	"path/filepath"
	"sort"
	"strings"
)

// ---------------------------------------------------------------------------------------
// Schema model (what the edit events act on) and its rendering into schema files.

type Arg struct{ Name, Type string }
type Field struct {
	Name string
	Args []Arg
	Type string
}
type TypeDef struct {
	Name   string
	Extend bool
	File   string
	Fields []Field
}
type Schema struct{ Types []TypeDef }

func initialSchema() Schema {
	return Schema{Types: []TypeDef{
		{Name: "Query", File: "a.graphql", Fields: []Field{
			{Name: "alpha", Type: "String!"},
			{Name: "beta", Args: []Arg{{"x", "Int"}}, Type: "Int"},
			{Name: "delta", Type: "Boolean"},
		}},
		{Name: "Item", File: "a.graphql", Fields: []Field{
			{Name: "id", Type: "ID!"},
			{Name: "name", Type: "String!"},
			{Name: "owner", Type: "String"},
		}},
		{Name: "Query", Extend: true, File: "b.graphql", Fields: []Field{
			{Name: "gamma", Type: "Item"},
		}},
		{Name: "Mutation", File: "b.graphql", Fields: []Field{
			{Name: "put", Args: []Arg{{"v", "String!"}}, Type: "Item"},
			{Name: "beta", Args: []Arg{{"id", "ID!"}}, Type: "Boolean!"}, // same field name as Query.beta on purpose
		}},
	}}
}

func (s Schema) clone() Schema {
	out := Schema{Types: make([]TypeDef, len(s.Types))}
	for i, t := range s.Types {
		t2 := t
		t2.Fields = make([]Field, len(t.Fields))
		for j, f := range t.Fields {
			f2 := f
			f2.Args = append([]Arg(nil), f.Args...)
			t2.Fields[j] = f2
		}
		out.Types[i] = t2
	}
	return out
}

var schemaFiles = []string{"a.graphql", "b.graphql"}

func (s Schema) render() map[string]string {
	out := map[string]string{}
	for _, f := range schemaFiles {
		var b strings.Builder
		for _, t := range s.Types {
			if t.File != f {
				continue
			}
			if t.Extend {
				b.WriteString("extend ")
			}
			fmt.Fprintf(&b, "type %s {\n", t.Name)
			for _, fl := range t.Fields {
				b.WriteString("  " + fl.Name)
				if len(fl.Args) > 0 {
					var as []string
					for _, a := range fl.Args {
						as = append(as, a.Name+": "+a.Type)
					}
					b.WriteString("(" + strings.Join(as, ", ") + ")")
				}
				b.WriteString(": " + fl.Type + "\n")
			}
			b.WriteString("}\n\n")
		}
		if b.Len() == 0 {
			b.WriteString("# empty\n")
		}
		out[f] = b.String()
	}
	return out
}

// resolverFields lists the (object, field) pairs that have a resolver method:
// every field of a root type, plus Item.owner (configured resolver: true).
func (s Schema) resolverFields() map[string]bool {
	out := map[string]bool{}
	for _, t := range s.Types {
		for _, f := range t.Fields {
			root := t.Name == "Query" || t.Name == "Mutation" || t.Name == "Subscription"
			if root || (t.Name == "Item" && f.Name == "owner") {
				out[methodKey(t.Name, f.Name)] = true
			}
		}
	}
	return out
}

func lcFirst(s string) string { return strings.ToLower(s[:1]) + s[1:] }
func ucFirst(s string) string { return strings.ToUpper(s[:1]) + s[1:] }

// methodKey is "<object>Resolver.<GoFieldName>" (names in this check are plain ASCII words,
// for which gqlgen's Go name is the field name with an upper-case first letter).
func methodKey(object, field string) string {
	return lcFirst(object) + "Resolver." + ucFirst(field)
}

func (s Schema) find(name string, extend bool, file string) int {
	for i, t := range s.Types {
		if t.Name == name && t.Extend == extend && (file == "" || t.File == file) {
			return i
		}
	}
	return -1
}

func (s Schema) fieldIdx(ti int, prefix string) int {
	for j, f := range s.Types[ti].Fields {
		if strings.HasPrefix(f.Name, prefix) {
			return j
		}
	}
	return -1
}

// addOnly tells whether cur differs from gen only by added fields (possibly nothing).
func addOnly(gen, cur Schema) bool {
	if len(gen.Types) != len(cur.Types) {
		return false
	}
	for i, g := range gen.Types {
		c := cur.Types[i]
		if g.Name != c.Name || g.Extend != c.Extend || g.File != c.File || len(c.Fields) < len(g.Fields) {
			return false
		}
		// every old field unchanged and in the same relative order
		j := 0
		for _, gf := range g.Fields {
			found := false
			for ; j < len(c.Fields); j++ {
				if fieldEq(gf, c.Fields[j]) {
					found = true
					j++
					break
				}
			}
			if !found {
				return false
			}
		}
	}
	return true
}

func fieldEq(a, b Field) bool {
	if a.Name != b.Name || a.Type != b.Type || len(a.Args) != len(b.Args) {
		return false
	}
	for i := range a.Args {
		if a.Args[i] != b.Args[i] {
			return false
		}
	}
	return true
}

// ---------------------------------------------------------------------------------------
// Events. Every event except "regen" is a pure edit of the schema files.

type Event struct {
	Name  string
	Apply func(Schema) (Schema, bool) // nil for regen
}

var baseEvents = []Event{
	{Name: "regen"},
	{Name: "add-field(Query)", Apply: func(s Schema) (Schema, bool) {
		s = s.clone()
		ti := s.find("Query", false, "")
		n := 1
		for _, f := range s.Types[ti].Fields {
			if strings.HasPrefix(f.Name, "extra") {
				n++
			}
		}
		s.Types[ti].Fields = append(s.Types[ti].Fields, Field{Name: fmt.Sprintf("extra%d", n), Type: "String!"})
		return s, true
	}},
	{Name: "remove-field(Query.alpha)", Apply: func(s Schema) (Schema, bool) {
		return removeField(s, "Query", "alpha")
	}},
	{Name: "rename-field(Query.beta*)", Apply: func(s Schema) (Schema, bool) {
		return renameField(s, "Query", "beta")
	}},
	{Name: "add-type(Subscription)", Apply: func(s Schema) (Schema, bool) {
		if s.find("Subscription", false, "") >= 0 {
			return s, false
		}
		s = s.clone()
		s.Types = append(s.Types, TypeDef{Name: "Subscription", File: "b.graphql", Fields: []Field{{Name: "tick", Type: "Int!"}}})
		return s, true
	}},
	{Name: "remove-type(Mutation)", Apply: func(s Schema) (Schema, bool) {
		ti := s.find("Mutation", false, "")
		if ti < 0 {
			return s, false
		}
		s = s.clone()
		s.Types = append(s.Types[:ti], s.Types[ti+1:]...)
		return s, true
	}},
	{Name: "move-field(Query.gamma*)", Apply: moveGamma},
	{Name: "add-arg(Query.beta*)", Apply: func(s Schema) (Schema, bool) {
		for ti := range s.Types {
			if s.Types[ti].Name != "Query" {
				continue
			}
			if fi := s.fieldIdx(ti, "beta"); fi >= 0 {
				s = s.clone()
				f := &s.Types[ti].Fields[fi]
				f.Args = append(f.Args, Arg{fmt.Sprintf("y%d", len(f.Args)), "String"})
				return s, true
			}
		}
		return s, false
	}},
}

var extraEvents = []Event{
	{Name: "remove-field(Mutation.put)", Apply: func(s Schema) (Schema, bool) {
		return removeField(s, "Mutation", "put")
	}},
	{Name: "add-field(Mutation)", Apply: func(s Schema) (Schema, bool) {
		ti := s.find("Mutation", false, "")
		if ti < 0 {
			return s, false
		}
		s = s.clone()
		n := 1
		for _, f := range s.Types[ti].Fields {
			if strings.HasPrefix(f.Name, "mextra") {
				n++
			}
		}
		s.Types[ti].Fields = append(s.Types[ti].Fields, Field{Name: fmt.Sprintf("mextra%d", n), Args: []Arg{{"n", "Int!"}}, Type: "Boolean!"})
		return s, true
	}},
	{Name: "remove-field(Item.owner)", Apply: func(s Schema) (Schema, bool) {
		return removeField(s, "Item", "owner")
	}},
	{Name: "rename-field(Query.gamma*)", Apply: func(s Schema) (Schema, bool) {
		return renameField(s, "Query", "gamma")
	}},
}

func removeField(s Schema, typ, field string) (Schema, bool) {
	for ti := range s.Types {
		if s.Types[ti].Name != typ {
			continue
		}
		for fi, f := range s.Types[ti].Fields {
			if f.Name == field {
				if len(s.Types[ti].Fields) == 1 {
					return s, false // would leave an empty type
				}
				s = s.clone()
				fs := s.Types[ti].Fields
				s.Types[ti].Fields = append(fs[:fi], fs[fi+1:]...)
				return s, true
			}
		}
	}
	return s, false
}

func renameField(s Schema, typ, prefix string) (Schema, bool) {
	for ti := range s.Types {
		if s.Types[ti].Name != typ {
			continue
		}
		if fi := s.fieldIdx(ti, prefix); fi >= 0 {
			s = s.clone()
			s.Types[ti].Fields[fi].Name += "X"
			return s, true
		}
	}
	return s, false
}

// moveGamma moves Query.gamma* between "extend type Query" in b.graphql and "type Query" in a.graphql.
func moveGamma(s Schema) (Schema, bool) {
	main := s.find("Query", false, "a.graphql")
	ext := s.find("Query", true, "b.graphql")
	if main < 0 {
		return s, false
	}
	if ext >= 0 {
		if fi := s.fieldIdx(ext, "gamma"); fi >= 0 {
			s = s.clone()
			f := s.Types[ext].Fields[fi]
			s.Types[main].Fields = append(s.Types[main].Fields, f)
			fs := s.Types[ext].Fields
			s.Types[ext].Fields = append(fs[:fi], fs[fi+1:]...)
			if len(s.Types[ext].Fields) == 0 {
				s.Types = append(s.Types[:ext], s.Types[ext+1:]...)
			}
			return s, true
		}
	}
	if fi := s.fieldIdx(main, "gamma"); fi >= 0 {
		s = s.clone()
		f := s.Types[main].Fields[fi]
		fs := s.Types[main].Fields
		s.Types[main].Fields = append(fs[:fi], fs[fi+1:]...)
		if ext >= 0 {
			s.Types[ext].Fields = append(s.Types[ext].Fields, f)
		} else {
			// keep "extend type Query" where it was initially: before Mutation
			nt := TypeDef{Name: "Query", Extend: true, File: "b.graphql", Fields: []Field{f}}
			pos := len(s.Types)
			for i, t := range s.Types {
				if t.File == "b.graphql" {
					pos = i
					break
				}
			}
			s.Types = append(s.Types[:pos], append([]TypeDef{nt}, s.Types[pos:]...)...)
		}
		return s, true
	}
	return s, false
}

func eventByName(n string) *Event {
	for i := range baseEvents {
		if baseEvents[i].Name == n {
			return &baseEvents[i]
		}
	}
	for i := range extraEvents {
		if extraEvents[i].Name == n {
			return &extraEvents[i]
		}
	}
	return nil
}

// ---------------------------------------------------------------------------------------
// Project state.

const (
	layoutFollow = "follow-schema"
	layoutSingle = "single-file"
)

// Opts are the documented options of the resolver: section of gqlgen.yml (codegen/config
// ResolverConfig) besides the layout. The zero value is the default configuration.
type Opts struct {
	Type     string `json:"type,omitempty"`              // resolver.type; "" = default "Resolver"
	FileTmpl string `json:"filename_template,omitempty"` // resolver.filename_template (follow-schema); "" = "{name}.resolvers.go"
	// Schema: where the two schema sources live (follow-schema): "" = a.graphql, b.graphql;
	// "same-base" = schema/a/types.graphql + schema/b/types.graphql; "case" = types.graphql +
	// Types.graphql. In the last two (and with a filename_template without {name}) both sources
	// map to ONE resolver file.
	Schema   string `json:"schema_files,omitempty"`
	OmitDoc  bool   `json:"omit_template_comment,omitempty"`
	Preserve bool   `json:"preserve_resolver,omitempty"` // existing resolver files are not rewritten
}

func (o Opts) rootType() string {
	if o.Type == "" {
		return "Resolver"
	}
	return o.Type
}

// structName is the per-object resolver struct the documentation / template promise:
// lcFirst(object) + ucFirst(resolver type).
func (o Opts) structName(object string) string { return lcFirst(object) + ucFirst(o.rootType()) }

// canon maps the receiver / type names of a tree with a custom resolver.type onto the names
// of the default configuration (Resolver, queryResolver, ...), which is what method keys,
// positions and signatures in this check are written in.
func (o Opts) canon(name string) string {
	t := o.rootType()
	if name == t {
		return "Resolver"
	}
	suf := ucFirst(t)
	if len(name) > len(suf) && strings.HasSuffix(name, suf) && name[0] >= 'a' && name[0] <= 'z' {
		return strings.TrimSuffix(name, suf) + "Resolver"
	}
	if t != "Resolver" && (name == "Resolver" || strings.HasSuffix(name, "Resolver")) {
		return name + "_literal" // not a resolver type of this tree
	}
	return name
}

// schemaPath is where the schema source with the logical name a.graphql / b.graphql lives.
func (o Opts) schemaPath(logical string) string {
	n := strings.TrimSuffix(logical, ".graphql")
	switch o.Schema {
	case "same-base":
		return "schema/" + n + "/types.graphql"
	case "case":
		if n == "a" {
			return "types.graphql"
		}
		return "Types.graphql"
	}
	return logical
}

// resolverFile is the follow-schema resolver file for the schema source a / b, as documented:
// filename_template with {name} = base name of the schema file without extension.
func (o Opts) resolverFile(name string) string {
	t := o.FileTmpl
	if t == "" {
		t = "{name}.resolvers.go"
	}
	base := filepath.Base(o.schemaPath(name + ".graphql"))
	return "graph/" + strings.ReplaceAll(t, "{name}", strings.TrimSuffix(base, filepath.Ext(base)))
}

// merged: both schema sources map to one resolver file (file names compare case-insensitively).
func (o Opts) merged() bool {
	return strings.EqualFold(o.resolverFile("a"), o.resolverFile("b"))
}

func (o Opts) String() string {
	var ps []string
	if o.Type != "" {
		ps = append(ps, "type="+o.Type)
	}
	if o.FileTmpl != "" {
		ps = append(ps, "filename_template="+o.FileTmpl)
	}
	if o.Schema != "" {
		ps = append(ps, "schema_files="+o.Schema)
	}
	if o.OmitDoc {
		ps = append(ps, "omit_template_comment")
	}
	if o.Preserve {
		ps = append(ps, "preserve_resolver")
	}
	if len(ps) == 0 {
		return "default-options"
	}
	return strings.Join(ps, ",")
}

func configYAML(layout string, cur Schema, o Opts) string {
	res := "resolver:\n  layout: follow-schema\n  dir: graph\n  package: graph\n"
	if layout == layoutSingle {
		res = "resolver:\n  layout: single-file\n  filename: graph/resolver.go\n  package: graph\n"
	}
	if o.Type != "" {
		res += "  type: " + o.Type + "\n"
	}
	if o.FileTmpl != "" && layout == layoutFollow {
		res += "  filename_template: \"" + o.FileTmpl + "\"\n"
	}
	if o.OmitDoc {
		res += "  omit_template_comment: true\n"
	}
	if o.Preserve {
		res += "  preserve_resolver: true\n"
	}
	models := ""
	if cur.resolverFields()[methodKey("Item", "owner")] {
		// Item.owner gets a resolver by configuration; the entry goes away with the field
		models = "models:\n  Item:\n    fields:\n      owner:\n        resolver: true\n"
	}
	return "schema:\n  - " + o.schemaPath("a.graphql") + "\n  - " + o.schemaPath("b.graphql") + "\nexec:\n  filename: graph/generated.go\n  package: graph\n" +
		"model:\n  filename: graph/models_gen.go\n  package: graph\n" + res + models + "skip_mod_tidy: true\n"
}

// State is the project tree as far as the property can observe it: the schema files as they
// are now (Cur), the schema the generated code was last produced from (Gen; it stands for
// generated.go / models_gen.go which are a function of it) and the resolver package's
// hand-editable Go files.
type State struct {
	Layout   string
	Opts     Opts
	Cur, Gen Schema
	Go       map[string]string // path relative to the project -> content

	// derived, not part of the identity
	Compiles int  // 0 unknown, 1 yes, -1 no
	Invalid  bool // some Go file does not parse: nothing can be said about later runs
	BuildOut string
	hash     string
}

func (s *State) Hash() string {
	if s.hash != "" {
		return s.hash
	}
	h := sha256.New()
	w := func(k, v string) { fmt.Fprintf(h, "%d:%s\x00%d:%s\x00", len(k), k, len(v), v) }
	w("layout", s.Layout)
	w("options", s.Opts.String())
	for _, f := range schemaFiles {
		w("cur/"+f, s.Cur.render()[f])
		w("gen/"+f, s.Gen.render()[f])
	}
	var names []string
	for n := range s.Go {
		names = append(names, n)
	}
	sort.Strings(names)
	for _, n := range names {
		w(n, s.Go[n])
	}
	s.hash = hex.EncodeToString(h.Sum(nil))
	return s.hash
}

// projectFiles renders the state into files for probe.WriteProject.
func (s *State) projectFiles() map[string]string {
	files := map[string]string{"gqlgen.yml": configYAML(s.Layout, s.Cur, s.Opts)}
	for f, c := range s.Cur.render() {
		files[s.Opts.schemaPath(f)] = c
	}
	for f, c := range s.Go {
		files[f] = c
	}
	return files
}

// ---------------------------------------------------------------------------------------
// The "user": rewrites freshly generated resolver files from the alphabets.

// TreeSpec identifies one initial state.
type TreeSpec struct {
	Layout string   `json:"layout"`
	Opts   Opts     `json:"options"`
	Enc    string   `json:"encoding,omitempty"`  // how the user's editor saved the resolver files (see encode)
	Recv   []string `json:"receivers,omitempty"` // receiver shape per position (see recvShapes); nil = all default
	Bodies []string `json:"bodies"`              // body element for Query.alpha, Query.beta, Query.gamma, Mutation.put, Mutation.beta, Item.owner, Query.delta
	Decls  []string `json:"decls"`               // declaration elements added to the resolver files
}

var positions = []string{"queryResolver.Alpha", "queryResolver.Beta", "queryResolver.Gamma", "mutationResolver.Put", "mutationResolver.Beta", "itemResolver.Owner", "queryResolver.Delta"}

// recvOf is the receiver shape the user gave the method at position key.
func (t TreeSpec) recvOf(key string) string {
	for i, p := range positions {
		if p == key && i < len(t.Recv) {
			return t.Recv[i]
		}
	}
	return ""
}

// labelOf names the input class of a method for signatures: its receiver shape when that is
// not the generated one, else its body element.
func (t TreeSpec) labelOf(key string) string {
	if sh := t.recvOf(key); sh != "" && bodyByName(t.bodyOf(key)) != nil && bodyByName(t.bodyOf(key)).Recv == "" {
		return "receiver-" + sh
	}
	return t.bodyOf(key)
}

func (t TreeSpec) bodyOf(key string) string {
	for i, p := range positions {
		if p == key {
			return t.Bodies[i]
		}
	}
	return "generated-default"
}

func (t TreeSpec) String() string {
	b := strings.Join(t.Bodies, ",")
	uniform := true
	for _, x := range t.Bodies {
		if x != t.Bodies[0] {
			uniform = false
		}
	}
	if uniform {
		b = "all:" + t.Bodies[0]
	}
	enc := ""
	if t.Enc != "" {
		enc = " encoding=" + t.Enc
	}
	if len(t.Recv) > 0 {
		enc += " receivers[" + strings.Join(t.Recv, ",") + "]"
	}
	return fmt.Sprintf("%s %s%s bodies[%s] decls[%s]", t.Layout, t.Opts, enc, b, strings.Join(t.Decls, ","))
}

func fileTag(layout string, o Opts, path string) string {
	switch {
	case layout == layoutSingle || o.merged():
		return "S"
	case path == o.resolverFile("a"):
		return "A"
	case path == o.resolverFile("b"):
		return "B"
	}
	return "S"
}

// isResolverFile tells which Go files hold resolver methods for a layout.
func isResolverFile(layout string, o Opts, path string) bool {
	if layout == layoutSingle {
		return path == "graph/resolver.go"
	}
	// every hand-editable Go file of the package except the root resolver file and the
	// additional hand-written files of this check
	return strings.HasPrefix(path, "graph/") && path != "graph/resolver.go" && !strings.Contains(path, "_user_")
}

// encodings of the user's resolver files (the bytes the generator finds at regeneration).
var encodings = []string{"", "crlf", "mixed-eol", "bom", "no-final-newline", "spaces", "nonascii-preamble"}

func encode(enc, src string) string {
	switch enc {
	case "crlf": // CRLF line endings throughout
		return strings.ReplaceAll(src, "\n", "\r\n")
	case "mixed-eol": // every fourth line ends in CRLF: inside bodies, raw strings and comments alike
		var b strings.Builder
		n := 0
		for _, c := range src {
			if c == '\n' {
				if n%4 == 1 {
					b.WriteByte('\r')
				}
				n++
			}
			b.WriteRune(c)
		}
		return b.String()
	case "bom": // UTF-8 byte order mark
		return "\xEF\xBB\xBF" + src
	case "no-final-newline":
		return strings.TrimRight(src, " \t\n")
	case "spaces": // indentation with four blanks per tab
		lines := strings.Split(src, "\n")
		for i, l := range lines {
			t := strings.TrimLeft(l, "\t")
			lines[i] = strings.Repeat("    ", len(l)-len(t)) + t
		}
		return strings.Join(lines, "\n")
	case "nonascii-preamble": // multi-byte text before every method: byte offsets != rune offsets
		i := strings.Index(src, "\n)\n")
		if i < 0 {
			return src
		}
		i += 3
		return src[:i] + "\n// pr\u00e9ambule \u2013 \u00e9 \u00e8 \u00fc \u4e2d\u6587 \u2713: non-ASCII text before every method\n\n/* \u00abblock\u00bb \u4e2d */\n" + src[i:]
	}
	return src
}

// mergeGo appends the declarations of resolver file b to resolver file a (one file for two
// schema sources), adding b's imports that a does not have.
func mergeGo(a, b string) (string, error) {
	split := func(src string) (head, rest string, specs []string, err error) {
		fset := token.NewFileSet()
		f, err := parser.ParseFile(fset, "", src, parser.ParseComments)
		if err != nil {
			return "", "", nil, err
		}
		end := 0
		for _, d := range f.Decls {
			if g, ok := d.(*ast.GenDecl); ok && g.Tok == token.IMPORT {
				end = fset.Position(g.End()).Offset
			}
		}
		for _, is := range f.Imports {
			specs = append(specs, src[fset.Position(is.Pos()).Offset:fset.Position(is.End()).Offset])
		}
		return src[:end], src[end:], specs, nil
	}
	ha, ra, sa, err := split(a)
	if err != nil {
		return "", err
	}
	_, rb, sb, err := split(b)
	if err != nil {
		return "", err
	}
	have := map[string]bool{}
	for _, s := range sa {
		have[s] = true
	}
	extra := ""
	for _, s := range sb {
		if !have[s] {
			have[s] = true
			extra += "\t" + s + "\n"
		}
	}
	if extra != "" {
		extra = "\n\nimport (\n" + extra + ")\n"
	}
	return ha + extra + ra + "\n" + rb, nil
}

func recvTypeName(d *ast.FuncDecl) string {
	if d.Recv == nil || len(d.Recv.List) == 0 {
		return ""
	}
	// the receiver's base type name, whatever the shape: T, *T, (T), *(T), (*T) ...
	t := d.Recv.List[0].Type
	for {
		switch x := t.(type) {
		case *ast.StarExpr:
			t = x.X
			continue
		case *ast.ParenExpr:
			t = x.X
			continue
		case *ast.Ident:
			return x.Name
		}
		return ""
	}
}

// receiver shapes of the user's resolver methods ("" = (r *T) as generated). The renamed
// receiver is a body element of its own (receiver-renamed).
var recvShapes = []string{"", "value", "unnamed", "blank", "paren", "paren-outer"}

// receiverText renders the receiver of shape sh and says whether it has the usable name r.
func receiverText(sh, name, typ string) (string, bool) {
	switch sh {
	case "value":
		return "(" + name + " " + typ + ")", true
	case "unnamed":
		return "(*" + typ + ")", false
	case "blank":
		return "(_ *" + typ + ")", false
	case "paren":
		return "(" + name + " *(" + typ + "))", true
	case "paren-outer":
		return "(" + name + " (*" + typ + "))", true
	}
	return "(" + name + " *" + typ + ")", true
}

// twinChunks builds the colliding hand-written methods of relaxation rel for the resolver
// methods ms (receiver type, name) of one resolver file: chunk 0 goes to a file sorting before
// the resolver files, 1 above the resolver methods, 2 below them, 3 to a file sorting after.
func twinChunks(rel, tag string, ms [][2]string) [4]string {
	places := []string{"FileBefore", "Above", "Below", "FileAfter"}
	var out [4]string
	for pi, place := range places {
		var b strings.Builder
		seen := map[string]bool{}
		if rel == "receiver" {
			fmt.Fprintf(&b, "\n// userTwin%s%s is a hand-written type whose methods are named like resolver methods.\ntype userTwin%s%s struct{}\n", place, tag, place, tag)
		}
		for _, m := range ms {
			recv, name := m[0], m[1]
			tr, tn := recv, name
			switch rel {
			case "case":
				tn = []string{lcFirst(name), strings.ToUpper(name), lcFirst(strings.ToUpper(name)), strings.ToLower(name[:len(name)-1]) + strings.ToUpper(name[len(name)-1:])}[pi]
			case "receiver":
				tr = "userTwin" + place + tag
			case "affix":
				tn = []string{name + "Impl", "Do" + name, name + "2", "do" + name}[pi]
			}
			if seen[tr+"."+tn] || (tr == recv && tn == name) {
				continue
			}
			seen[tr+"."+tn] = true
			fmt.Fprintf(&b, "\n// %s is hand-written (%s twin of %s.%s, placed %s).\nfunc (r *%s) %s() string {\n\treturn \"twin %s %s of %s.%s\"\n}\n", tn, rel, recv, name, place, tr, tn, rel, place, recv, name)
		}
		out[pi] = b.String()
	}
	return out
}

// userEdit rewrites one generated resolver file; it also returns additional hand-written files.
func userEdit(spec TreeSpec, path, src string) (string, map[string]string, error) {
	fset := token.NewFileSet()
	f, err := parser.ParseFile(fset, path, src, parser.ParseComments)
	if err != nil {
		return "", nil, fmt.Errorf("fresh file %s does not parse: %v", path, err)
	}
	off := func(p token.Pos) int { return fset.Position(p).Offset }
	tag := fileTag(spec.Layout, spec.Opts, path)
	subst := func(t string) string {
		t = strings.ReplaceAll(t, "$F", tag)
		t = strings.ReplaceAll(t, "$ROOT", spec.Opts.rootType())
		return strings.ReplaceAll(t, "$QRES", spec.Opts.structName("Query"))
	}
	var des []*DeclElem
	for _, n := range spec.Decls {
		d := declByName(n)
		if d == nil {
			return "", nil, fmt.Errorf("unknown decl element %q", n)
		}
		if d.OnlyB && tag == "A" {
			continue
		}
		des = append(des, d)
	}
	var uses []string
	for _, d := range des {
		if d.Use != "" {
			uses = append(uses, "\t"+subst(d.Use))
		}
	}

	// colliding hand-written methods for every resolver method of this file
	var rms [][2]string
	for _, d := range f.Decls {
		if fd, ok := d.(*ast.FuncDecl); ok {
			if recv := recvTypeName(fd); recv != "" && spec.Opts.canon(recv) != "Resolver" && strings.HasSuffix(spec.Opts.canon(recv), "Resolver") {
				rms = append(rms, [2]string{recv, fd.Name.Name})
			}
		}
	}
	var twins [4]string
	for _, d := range des {
		if d.Twin != "" {
			c := twinChunks(d.Twin, tag, rms)
			for i := range twins {
				twins[i] += c[i]
			}
		}
	}
	extra := map[string]string{}
	if twins[0] != "" {
		extra["graph/0_user_"+strings.ToLower(tag)+".go"] = "package graph\n" + twins[0]
		extra["graph/zzz_user_"+strings.ToLower(tag)+".go"] = "package graph\n" + twins[3]
	}

	var out strings.Builder
	// header: everything up to the end of the last import declaration
	lastImp := -1
	for i, d := range f.Decls {
		if g, ok := d.(*ast.GenDecl); ok && g.Tok == token.IMPORT {
			lastImp = i
		}
	}
	if lastImp < 0 {
		return "", nil, fmt.Errorf("fresh file %s has no imports", path)
	}
	out.WriteString(src[:off(f.Decls[lastImp].End())])
	out.WriteString("\n")
	hasFmt := false
	for _, is := range f.Imports {
		if is.Path.Value == `"fmt"` {
			hasFmt = true
		}
	}
	if !hasFmt { // the single-file layout's default bodies do not use fmt; the user's do
		out.WriteString("\nimport \"fmt\"\n")
	}
	for _, d := range des {
		if len(d.Imports) == 0 {
			continue
		}
		if d.SepImp {
			for _, s := range d.Imports {
				out.WriteString("\nimport " + s + "\n")
			}
		} else {
			out.WriteString("\nimport (\n")
			for _, s := range d.Imports {
				out.WriteString("\t" + s + "\n")
			}
			out.WriteString(")\n")
		}
	}
	userDecls := func() {
		for _, d := range des {
			if d.Decls != "" {
				out.WriteString("\n" + subst(d.Decls) + "\n")
			}
		}
	}
	out.WriteString(twins[1])
	declsDone := false
	for _, d := range f.Decls[lastImp+1:] {
		fd, isFunc := d.(*ast.FuncDecl)
		recv := ""
		if isFunc {
			recv = recvTypeName(fd)
		}
		crecv := spec.Opts.canon(recv)
		if !isFunc || recv == "" || crecv == "Resolver" || !strings.HasSuffix(crecv, "Resolver") {
			// boilerplate: copy with its doc comment
			start := d.Pos()
			switch x := d.(type) {
			case *ast.FuncDecl:
				if x.Doc != nil {
					start = x.Doc.Pos()
				}
			case *ast.GenDecl:
				if x.Doc != nil {
					start = x.Doc.Pos()
				}
			}
			out.WriteString("\n" + src[off(start):off(d.End())] + "\n")
			continue
		}
		key := crecv + "." + fd.Name.Name
		be := bodyByName(spec.bodyOf(key))
		if be == nil {
			return "", nil, fmt.Errorf("no body element for %s", key)
		}
		rep := func(s string) string { return subst(strings.ReplaceAll(s, "$M", key)) }
		doc := ""
		if be.Doc != "" {
			doc = rep(be.Doc)
		} else if fd.Doc != nil {
			doc = src[off(fd.Doc.Pos()):off(fd.Doc.End())]
		}
		rname := be.Recv
		if rname == "" {
			rname = "r"
		}
		params := src[off(fd.Type.Params.Pos()):off(fd.Type.Params.End())]
		if be.Ctx != "" {
			if !strings.HasPrefix(params, "(ctx ") {
				return "", nil, fmt.Errorf("unexpected params %q", params)
			}
			params = "(" + be.Ctx + " " + strings.TrimPrefix(params, "(ctx ")
		}
		if fd.Type.Results == nil || len(fd.Type.Results.List) != 2 {
			return "", nil, fmt.Errorf("unexpected results of %s", key)
		}
		r0 := fd.Type.Results.List[0].Type
		r1 := fd.Type.Results.List[1].Type
		t0, t1 := src[off(r0.Pos()):off(r0.End())], src[off(r1.Pos()):off(r1.End())]
		results := "(" + t0 + ", " + t1 + ")"
		if be.Named {
			results = "(res " + t0 + ", err " + t1 + ")"
		}
		body := rep(be.Body)
		if len(uses) > 0 {
			body = strings.Join(uses, "\n") + "\n" + body
		}
		out.WriteString("\n")
		if doc != "" {
			out.WriteString(doc + "\n")
		}
		shape := ""
		if be.Recv == "" {
			shape = spec.recvOf(key)
		}
		rtext, named := receiverText(shape, rname, recv)
		if shape != "" && named {
			body = "\t_ = " + rname + ".$ROOT // the body uses the receiver\n" + body
			body = subst(body)
		}
		fmt.Fprintf(&out, "func %s %s%s %s {", rtext, fd.Name.Name, params, results)
		if be.OneLine && be.Tight && len(uses) == 0 {
			out.WriteString(strings.TrimSpace(body) + "}\n")
		} else if be.OneLine && len(uses) == 0 {
			out.WriteString(" " + strings.TrimSpace(body) + " }\n")
		} else {
			out.WriteString("\n" + body + "\n}\n")
		}
		if !declsDone {
			declsDone = true
			userDecls()
		}
	}
	if !declsDone {
		userDecls()
	}
	out.WriteString(twins[2])
	return out.String(), extra, nil
}

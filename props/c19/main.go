// C19 - regeneration never loses user-written resolver code.
//
// Explicit-state breadth-first search over edit histories of a project tree, executed on the
// real generator (cmd/gendriver built from the tree under test). A state is the project tree
// (schema files now, schema the generated code stems from, hand-editable Go files of the
// resolver package), identified by SHA-256. Events are `regen` (one generator run) and pure
// schema edits. Every history up to the tree's depth bound is followed by two further
// regenerations. The oracle (oracle.go) is evaluated on every generator run.
package main

import (
	"encoding/json"
	"fmt"
	"os"
	"path/filepath"
	"runtime"
	"sort"
	"strings"
	"sync"
	"sync/atomic"
	"time"

	"verif/common"
	"verif/probe"
)

var (
	check          *common.Check
	sem            chan struct{}
	dirSeq         atomic.Int64
	genRuns        atomic.Int64
	builds         atomic.Int64
	scratchRetries atomic.Int64
)

// runInScratch materialises a state, runs the generator, optionally `go build ./...`.
// It returns the hand-editable Go files after the run.
type runResult struct {
	Go       map[string]string
	ExitCode int
	Output   string
	build    func() (bool, string)
}

// withProject runs f in a fresh scratch project. If the project directory is damaged from
// outside while f runs (other checks share $VERIF_SCRATCH and clean it), the whole step is
// repeated; a step only counts when its directory was intact at the end.
func withProject(files map[string]string, f func(dir string) error) error {
	var err error
	for attempt := 0; attempt < 4; attempt++ {
		name := fmt.Sprintf("p%06d", dirSeq.Add(1))
		var dir string
		dir, err = probe.WriteProject(probe.Spec{Name: name, Files: files})
		if err != nil {
			scratchRetries.Add(1)
			continue
		}
		err = f(dir)
		intact := true
		for _, p := range []string{"go.mod", "gqlgen.yml", "graph"} {
			if _, e := os.Stat(filepath.Join(dir, p)); e != nil {
				intact = false
			}
		}
		os.RemoveAll(dir)
		if intact {
			return err
		}
		scratchRetries.Add(1)
		err = fmt.Errorf("scratch project %s was removed from outside during the step", dir)
	}
	return err
}

func readGo(dir string) map[string]string {
	out := map[string]string{}
	ents, _ := os.ReadDir(filepath.Join(dir, "graph"))
	for _, e := range ents {
		n := e.Name()
		if e.IsDir() || !strings.HasSuffix(n, ".go") || n == "generated.go" || n == "models_gen.go" {
			continue
		}
		b, _ := os.ReadFile(filepath.Join(dir, "graph", n))
		out["graph/"+n] = string(b)
	}
	return out
}

func goBuild(dir string) (bool, string) {
	builds.Add(1)
	out, err := probe.GoBuild(dir, "-gcflags=-e", "./...")
	return err == nil, out
}

// regenerate runs the generator on pre and evaluates the oracle. trackCompile: also establish
// whether the result compiles (needed as "compiled before" of later runs).
func regenerate(spec TreeSpec, pre *State, trackCompile bool) (*State, []Complaint, OracleStats, error) {
	var post *State
	var cs []Complaint
	var st OracleStats
	sem <- struct{}{}
	defer func() { <-sem }()
	err := withProject(pre.projectFiles(), func(dir string) error {
		genRuns.Add(1)
		res, err := probe.RunGenerator(dir, dir, "")
		if err != nil {
			return err
		}
		post = &State{Layout: pre.Layout, Opts: pre.Opts, Cur: pre.Cur, Gen: pre.Cur, Go: readGo(dir)}
		built := false
		build := func() (bool, string) {
			built = true
			ok, out := goBuild(dir)
			post.Compiles = -1
			if ok {
				post.Compiles = 1
			}
			post.BuildOut = out
			return ok, out
		}
		cs, st = Oracle(spec, pre, post.Go, build)
		post.Invalid = st.PostInvalid
		if res.ExitCode == 4 {
			cs = append(cs, Complaint{"generator-panic", "api.Generate panicked: " + clip(res.Output, 400)})
		} else if res.ExitCode != 0 && res.ExitCode != 3 {
			return fmt.Errorf("gendriver exit %d: %s", res.ExitCode, res.Output)
		} else if res.ExitCode == 3 && st.Masked == 0 && !strings.Contains(res.Output, "validation failed") {
			cs = append(cs, Complaint{"generator-error", "api.Generate failed on a valid tree: " + clip(res.Output, 400)})
		}
		if !built && res.ExitCode == 0 {
			// Not a verdict, only the precondition "compiled before" of later runs: the
			// generator's final validation type-checked the package without errors.
			// (Any other exit code leaves the status unknown and clause 5 is then skipped.)
			post.Compiles = 1
		}
		_ = trackCompile
		return nil
	})
	return post, cs, st, err
}

// buildInitial produces the initial state of a tree: fresh generation, then the "user".
//
// When both schema sources map to ONE resolver file (merged layouts) the user's file is built
// from a fresh generation with distinct resolver files (same options otherwise): each file is
// edited, then the two are joined under the name the merged configuration uses. The initial
// tree thus never depends on how the generator under test merges sources.
func buildInitial(spec TreeSpec) (*State, error) {
	sem <- struct{}{}
	defer func() { <-sem }()
	merged := spec.Layout == layoutFollow && spec.Opts.merged()
	base := spec
	if merged {
		base.Opts.Schema, base.Opts.FileTmpl = "", ""
	}
	target := spec.Opts.resolverFile("a")
	if merged && spec.Opts.Schema == "case" {
		probeSt := &State{Layout: spec.Layout, Opts: spec.Opts, Cur: initialSchema(), Gen: initialSchema(), Go: map[string]string{}}
		err := withProject(probeSt.projectFiles(), func(dir string) error {
			genRuns.Add(1)
			if _, err := probe.RunGenerator(dir, dir, ""); err != nil {
				return err
			}
			var rf []string
			for p := range readGo(dir) {
				if isResolverFile(spec.Layout, spec.Opts, p) {
					rf = append(rf, p)
				}
			}
			sort.Strings(rf)
			switch len(rf) {
			case 1, 2:
				// Go rejects a package with file names that differ only in case, so the user
				// has one file; with two candidates the first is as good as the other
				target = rf[0]
			default:
				return fmt.Errorf("fresh generation with %v wrote resolver files %v", spec.Opts, rf)
			}
			return nil
		})
		if err != nil {
			return nil, err
		}
	}
	s0 := &State{Layout: spec.Layout, Opts: base.Opts, Cur: initialSchema(), Gen: initialSchema(), Go: map[string]string{}}
	err := withProject(s0.projectFiles(), func(dir string) error {
		genRuns.Add(1)
		res, err := probe.RunGenerator(dir, dir, "")
		if err != nil {
			return err
		}
		if res.ExitCode != 0 {
			return fmt.Errorf("fresh generation failed (exit %d): %s", res.ExitCode, res.Output)
		}
		s0.Go = readGo(dir)
		var edited []string
		newFiles := map[string]string{}
		for _, p := range goFiles(s0.Go) {
			if !isResolverFile(base.Layout, base.Opts, p) {
				continue
			}
			out, extra, err := userEdit(base, p, s0.Go[p])
			if err != nil {
				return err
			}
			s0.Go[p] = out
			edited = append(edited, p)
			for ep, ec := range extra {
				newFiles[ep] = ec
			}
		}
		if len(edited) == 0 {
			return fmt.Errorf("no resolver files generated")
		}
		if merged {
			pa, pb := base.Opts.resolverFile("a"), base.Opts.resolverFile("b")
			if len(edited) != 2 || s0.Go[pa] == "" || s0.Go[pb] == "" {
				return fmt.Errorf("expected %s and %s, got %v", pa, pb, edited)
			}
			m, err := mergeGo(s0.Go[pa], s0.Go[pb])
			if err != nil {
				return err
			}
			for _, p := range []string{pa, pb} {
				delete(s0.Go, p)
				os.Remove(filepath.Join(dir, p))
			}
			s0.Go[target] = m
			edited = []string{target}
		}
		for _, p := range edited {
			s0.Go[p] = encode(spec.Enc, s0.Go[p])
		}
		for ep, ec := range newFiles {
			s0.Go[ep] = ec
		}
		for p, c := range s0.Go {
			if err := os.WriteFile(filepath.Join(dir, p), []byte(c), 0o644); err != nil {
				return err
			}
		}
		ok, out := goBuild(dir)
		if !ok {
			return fmt.Errorf("the user-edited initial tree %v does not compile - alphabet bug:\n%s", spec, out)
		}
		s0.Compiles = 1
		return nil
	})
	s0.Opts = spec.Opts
	return s0, err
}

// ---------------------------------------------------------------------------------------

type Node struct {
	St   *State
	Path []string
}

type Finding struct {
	Tree int
	Path []string // events leading to the state the failing run started from, then "regen"
	C    Complaint
}

type Tree struct {
	Idx    int
	Spec   TreeSpec
	Depth  int
	Events []Event
	Track  bool // establish compile status after every run (tree without extra declarations)

	mu        sync.Mutex
	level     []*Node
	visited   map[string]bool
	memo      map[string]*State // regen results by pre-state hash
	states    map[string]bool
	trans     int
	runs      int
	findings  []Finding
	stats     OracleStats
	compiled  int
	maxDepth  int
	done      bool
	histories int
	terminal  int
	lastPath  []string
}

func (t *Tree) see(s *State) { t.states[s.Hash()] = true }

// ensureRegen runs the generator on every not yet regenerated state of nodes (in parallel)
// and returns the successors in the order of nodes.
func (t *Tree) ensureRegen(nodes []*Node) ([]*Node, error) {
	var jobs []*Node
	seen := map[string]bool{}
	for _, n := range nodes {
		if n == nil || n.St.Invalid {
			continue
		}
		h := n.St.Hash()
		if t.memo[h] != nil || seen[h] {
			continue
		}
		seen[h] = true
		jobs = append(jobs, n)
	}
	type res struct {
		post *State
		cs   []Complaint
		st   OracleStats
		err  error
	}
	results := make([]res, len(jobs))
	var wg sync.WaitGroup
	for i, n := range jobs {
		if check.Expired() {
			results[i].err = errExpired
			continue
		}
		wg.Add(1)
		go func(i int, n *Node) {
			defer wg.Done()
			p, cs, st, err := regenerate(t.Spec, n.St, t.Track)
			results[i] = res{p, cs, st, err}
		}(i, n)
	}
	wg.Wait()
	for i, n := range jobs {
		r := results[i]
		if r.err != nil {
			return nil, r.err
		}
		t.memo[n.St.Hash()] = r.post
		t.runs++
		t.trans++
		t.see(r.post)
		t.stats.Methods += r.st.Methods
		t.stats.Decls += r.st.Decls
		t.stats.Imports += r.st.Imports
		t.stats.Masked += r.st.Masked
		if r.st.Compiled {
			t.compiled++
		}
		for _, c := range r.cs {
			t.findings = append(t.findings, Finding{t.Idx, append(append([]string{}, n.Path...), "regen"), c})
		}
	}
	var out []*Node
	for _, n := range nodes {
		if n == nil || n.St.Invalid {
			out = append(out, nil) // terminal: the tree is not valid Go any more
			continue
		}
		out = append(out, &Node{St: t.memo[n.St.Hash()], Path: append(append([]string{}, n.Path...), "regen")})
	}
	return out, nil
}

var errExpired = fmt.Errorf("internal budget expired")

// step processes BFS level d: closes every node of the level with two regenerations, then
// (if d < Depth) computes the next level.
func (t *Tree) step(d int) error {
	if d == 0 {
		s0, err := buildInitial(t.Spec)
		if err != nil {
			return err
		}
		t.visited = map[string]bool{s0.Hash(): true}
		t.memo = map[string]*State{}
		t.states = map[string]bool{}
		t.see(s0)
		t.level = []*Node{{St: s0}}
		t.runs++ // the fresh generation
	}
	if len(t.level) == 0 {
		return nil
	}
	t.maxDepth = d
	r1, err := t.ensureRegen(t.level)
	if err != nil {
		return err
	}
	if _, err := t.ensureRegen(r1); err != nil {
		return err
	}
	t.histories += len(t.level)
	t.lastPath = t.level[len(t.level)-1].Path
	if d >= t.Depth {
		t.level = nil
		return nil
	}
	var next []*Node
	for i, n := range t.level {
		if n.St.Invalid {
			t.terminal++
			continue
		}
		for _, ev := range t.Events {
			var succ *Node
			if ev.Apply == nil {
				succ = r1[i] // transition already counted by ensureRegen
			} else {
				ns, ok := ev.Apply(n.St.Cur)
				if !ok {
					continue
				}
				t.trans++
				st := &State{Layout: n.St.Layout, Opts: n.St.Opts, Cur: ns, Gen: n.St.Gen, Go: n.St.Go, Compiles: n.St.Compiles, Invalid: n.St.Invalid}
				succ = &Node{St: st, Path: append(append([]string{}, n.Path...), ev.Name)}
			}
			h := succ.St.Hash()
			if t.visited[h] {
				continue
			}
			t.visited[h] = true
			t.see(succ.St)
			next = append(next, succ)
		}
	}
	t.level = next
	return nil
}

// ---------------------------------------------------------------------------------------
// The plan: which trees, to which depth.

// option values explored besides the defaults
var (
	optTypes      = []string{"", "AppRoot", "rootResolver"} // default, custom exported, lower-case first letter
	optFileTmpl   = "res_{name}.go"
	optFileNoName = "all_resolvers.go" // no {name}: every schema source maps to this one file
)

func uniform(b string) []string {
	out := make([]string, len(positions))
	for i := range out {
		out[i] = b
	}
	return out
}

func plan(tier string) []*Tree {
	var trees []*Tree
	var recv []string // receiver shapes of the next tree added (reset by add)
	add := func(layout string, o Opts, enc string, bs []string, ds []string, depth int, events []Event) {
		track := true
		for _, d := range ds {
			if declByName(d).Decls != "" || declByName(d).Twin != "" {
				track = false
			}
		}
		if layout == layoutSingle {
			o.FileTmpl = "" // the option only exists for follow-schema
			o.Schema = ""   // where the schema sources live does not matter for a single resolver file
		}
		rv := recv
		recv = nil
		trees = append(trees, &Tree{Idx: len(trees), Spec: TreeSpec{Layout: layout, Opts: o, Enc: enc, Recv: rv, Bodies: bs, Decls: ds}, Depth: depth, Events: events, Track: track})
	}
	group := func(g string) []string {
		var out []string
		for _, d := range decls {
			if d.Group == g {
				out = append(out, d.Name)
			}
		}
		return out
	}
	// mixed-body trees: consecutive body elements on the resolver methods, rotated by rot
	mixed := func(t, rot int) []string {
		n := len(positions)
		out := make([]string, n)
		for i := 0; i < n; i++ {
			out[(i+rot)%n] = bodies[1+(n*t+i)%(len(bodies)-1)].Name // bodies[0] (plain) is in every other tree
		}
		return out
	}
	nMixed := (len(bodies) - 1 + len(positions) - 1) / len(positions)
	// receiver shapes: position i of mixed tree t gets one of the first four shapes, (i+t) mod 4,
	// so every mixed tree has each of them next to adversarial bodies; ALL shapes (also the
	// parenthesised ones, which the pinned generator does not recognise - known finding - and
	// which would otherwise hide what else happens to the body element underneath) are put on
	// the plain-bodied methods of the "imports" group tree, position i gets shape i mod 6
	shapes := func(t int) []string {
		out := make([]string, len(positions))
		for i := range out {
			out[i] = recvShapes[(i+t)%4]
		}
		return out
	}
	allShapes := func() []string {
		out := make([]string, len(positions))
		for i := range out {
			out[i] = recvShapes[i%len(recvShapes)]
		}
		return out
	}
	uniformShape := func(sh string) []string {
		out := make([]string, len(positions))
		for i := range out {
			out[i] = sh
		}
		return out
	}
	layouts := []string{layoutFollow, layoutSingle}
	all := append(append([]Event{}, baseEvents...), extraEvents...)

	// the project dimension: documented options of the resolver: section
	def := Opts{}
	// preserve_resolver trees are cheap: nothing is rewritten, two edits suffice
	var preserveEvents []Event
	for _, e := range baseEvents {
		if e.Name == "add-field(Query)" || e.Name == "remove-field(Query.alpha)" {
			preserveEvents = append(preserveEvents, e)
		}
	}
	// per mixed tree: one resolver.type / comment option, one way of mapping both schema
	// sources to ONE resolver file (follow-schema only) and one file encoding
	mixedOpts := []Opts{
		{Type: optTypes[1], Schema: "same-base"},
		{Type: optTypes[2], Schema: "case"},
		{OmitDoc: true, FileTmpl: optFileNoName},
	}
	mixedEnc := []string{"crlf", "mixed-eol", "bom"}
	if tier == "quick" {
		// depth 2 on the plain tree of the follow-schema layout, depth 1 everywhere else; every
		// alphabet element, option value, schema-file layout and file encoding occurs in some
		// tree of either layout (schema-file layouts: follow-schema only)
		add(layoutFollow, def, "", uniform("plain"), []string{"none"}, 2, baseEvents)
		add(layoutSingle, def, "", uniform("plain"), []string{"none"}, 1, baseEvents)
		for _, l := range layouts {
			for t := 0; t < nMixed; t++ {
				recv = shapes(t)
				add(l, mixedOpts[t%len(mixedOpts)], mixedEnc[t%len(mixedEnc)], mixed(t, 0), []string{"none"}, 1, baseEvents)
			}
			// the declaration group refers to the root type and to the Query resolver struct
			if l == layoutFollow {
				add(l, Opts{Type: optTypes[1], FileTmpl: optFileTmpl}, "no-final-newline", uniform("plain"), group("decls"), 1, baseEvents)
			} else {
				add(l, Opts{Type: optTypes[2]}, "no-final-newline", uniform("plain"), group("decls"), 1, baseEvents)
			}
			recv = allShapes()
			add(l, def, "spaces", uniform("plain"), group("imports"), 1, baseEvents)
			add(l, def, "nonascii-preamble", uniform("plain"), group("imports2"), 1, baseEvents)
			add(l, Opts{Preserve: true}, "", uniform("plain"), []string{"helper-func"}, 1, preserveEvents)
		}
		return trees
	}
	// thorough: depth 3 on the plain trees; depth 2 on the mixed-body trees and on the groups
	// of harmless declarations / imports; depth 1 (with the extra events) on the rotated
	// mixed-body trees and on imports2; depth 1 on one tree per single alphabet element.
	// Options: default on the depth-2/3 trees; the rotated mixed trees as in quick; on the
	// single-element trees the full product type x filename_template x omit_template_comment
	// cyclically (every pair of these values occurs), the schema-file layouts on a cycle that
	// shifts by one per round of the product (every pair with type / template / comment option
	// occurs after two rounds) and the encodings on a cycle of their own (length 7);
	// preserve_resolver with every combination of the other options on cheap trees.
	var product []Opts
	for _, ty := range optTypes {
		for _, ft := range []string{"", optFileTmpl, optFileNoName} {
			for _, om := range []bool{false, true} {
				product = append(product, Opts{Type: ty, FileTmpl: ft, OmitDoc: om})
			}
		}
	}
	schemas := []string{"", "same-base", "case"}
	for _, l := range layouts {
		add(l, def, "", uniform("plain"), []string{"none"}, 3, baseEvents)
	}
	for _, l := range layouts {
		for t := 0; t < nMixed; t++ {
			add(l, def, "", mixed(t, 0), []string{"none"}, 2, baseEvents)
			recv = shapes(t)
			add(l, mixedOpts[t%len(mixedOpts)], mixedEnc[t%len(mixedEnc)], mixed(t, len(positions)/2), []string{"none"}, 1, all)
		}
		add(l, def, "", uniform("plain"), group("decls"), 2, baseEvents)
		recv = allShapes()
		add(l, def, "", uniform("plain"), group("imports"), 2, baseEvents)
		add(l, def, "", uniform("plain"), group("imports2"), 1, all)
	}
	for _, l := range layouts {
		k, n := 0, 0
		next := func() (Opts, string) {
			for {
				o := product[k%len(product)]
				o.Schema = schemas[(k+k/len(product))%len(schemas)]
				k++
				if l == layoutSingle && o.FileTmpl != "" {
					continue // same project as without it
				}
				n++
				return o, encodings[n%len(encodings)]
			}
		}
		for _, sh := range recvShapes[1:] { // one receiver shape on every method, everything else default
			recv = uniformShape(sh)
			add(l, def, "", uniform("plain"), []string{"none"}, 1, baseEvents)
		}
		for _, b := range bodies[1:] {
			o, e := next()
			add(l, o, e, uniform(b.Name), []string{"none"}, 1, baseEvents)
		}
		for _, d := range decls[1:] {
			o, e := next()
			add(l, o, e, uniform("plain"), []string{d.Name}, 1, baseEvents)
		}
		for _, o := range product {
			if l == layoutSingle && o.FileTmpl != "" {
				continue
			}
			o.Preserve = true
			add(l, o, "", uniform("plain"), []string{"helper-func"}, 1, preserveEvents)
		}
	}
	return trees
}

// ---------------------------------------------------------------------------------------

type Replay struct {
	Tree TreeSpec `json:"tree"`
	Path []string `json:"path"`
}

// die reports broken machinery (exit 2) after removing the scratch files.
func die(format string, a ...any) {
	probe.Cleanup()
	common.Broken(format, a...)
}

func replay(file string) {
	b, err := os.ReadFile(file)
	if err != nil {
		die("replay: %v", err)
	}
	var w struct {
		Replay Replay `json:"replay"`
	}
	if err := json.Unmarshal(b, &w); err != nil || len(w.Replay.Tree.Bodies) != len(positions) {
		die("replay file %s has no usable replay section (%v)", file, err)
	}
	spec := w.Replay.Tree
	fmt.Printf("tree: %v\npath: %v\n", spec, w.Replay.Path)
	st, err := buildInitial(spec)
	if err != nil {
		die("replay: %v", err)
	}
	for i, evn := range w.Replay.Path {
		if evn == "regen" {
			post, cs, os_, err := regenerate(spec, st, true)
			if err != nil {
				die("replay: %v", err)
			}
			fmt.Printf("step %d regen: %d surviving methods compared, %d other declarations, %d import requirements, masked=%d, compile clause evaluated=%v, complaints=%d\n", i, os_.Methods, os_.Decls, os_.Imports, os_.Masked, os_.Compiled, len(cs))
			for _, c := range cs {
				fmt.Printf("  [%s] %s\n", c.Sig, c.What)
			}
			if i == len(w.Replay.Path)-1 {
				for _, p := range goFiles(st.Go) {
					fmt.Printf("----- before: %s\n%s\n", p, st.Go[p])
				}
				for _, p := range goFiles(post.Go) {
					fmt.Printf("----- after: %s\n%s\n", p, post.Go[p])
				}
			}
			st = post
			continue
		}
		ev := eventByName(evn)
		if ev == nil {
			die("replay: unknown event %q", evn)
		}
		ns, ok := ev.Apply(st.Cur)
		if !ok {
			die("replay: event %q not enabled", evn)
		}
		st = &State{Layout: st.Layout, Opts: st.Opts, Cur: ns, Gen: st.Gen, Go: st.Go, Compiles: st.Compiles}
		fmt.Printf("step %d %s\n", i, evn)
	}
}

func main() {
	check = common.New("C19", "model_checking")
	sem = make(chan struct{}, runtime.NumCPU())
	if err := addTemplateShadowBody(); err != nil {
		common.Broken("cannot derive the shadowing body from resolver.gotpl: %v", err)
	}
	if _, err := probe.Driver(); err != nil {
		probe.Cleanup()
		common.Broken("%v", err)
	}
	if f := common.ReplayArg(); f != "" {
		replay(f)
		probe.Cleanup()
		return
	}
	budget := 150 * time.Second
	if check.Tier == "thorough" {
		budget = 20 * time.Minute
	}
	if v := os.Getenv("C19_BUDGET_S"); v != "" { // development aid only
		var n int
		fmt.Sscan(v, &n)
		budget = time.Duration(n) * time.Second
	}
	check.Budget(budget)

	trees := plan(check.Tier)
	if f := os.Getenv("C19_TREES"); f != "" { // development aid only: restrict to trees whose description contains f
		var keep []*Tree
		for _, t := range trees {
			if strings.Contains(t.Spec.String(), f) {
				t.Idx = len(keep)
				keep = append(keep, t)
			}
		}
		trees = keep
	}
	for _, a := range os.Args {
		if a == "--init-only" { // harness self-test: every initial tree of the plan must compile
			var wg sync.WaitGroup
			for _, t := range trees {
				wg.Add(1)
				go func(t *Tree) {
					defer wg.Done()
					if _, err := buildInitial(t.Spec); err != nil {
						fmt.Printf("tree %d: %v\n", t.Idx, err)
					}
				}(t)
			}
			wg.Wait()
			probe.Cleanup()
			fmt.Printf("%d initial trees built\n", len(trees))
			return
		}
	}
	maxDepth := 0
	for _, t := range trees {
		if t.Depth > maxDepth {
			maxDepth = t.Depth
		}
	}
	expired := false
	var broken error
	for d := 0; d <= maxDepth && !expired && broken == nil; d++ {
		var wg sync.WaitGroup
		var mu sync.Mutex
		for _, t := range trees {
			if t.Depth < d || t.done {
				continue
			}
			wg.Add(1)
			go func(t *Tree) {
				defer wg.Done()
				err := t.step(d)
				if err == nil {
					return
				}
				mu.Lock()
				defer mu.Unlock()
				t.done = true
				if err == errExpired {
					expired = true
				} else if broken == nil {
					broken = fmt.Errorf("tree %d (%v): %v", t.Idx, t.Spec, err)
				}
			}(t)
		}
		wg.Wait()
	}
	probe.Cleanup()
	if broken != nil {
		common.Broken("%v", broken)
	}

	// ---- merge, deterministically
	states, trans, runs, histories := 0, 0, 0, 0
	var agg OracleStats
	compiled := 0
	var all []Finding
	for _, t := range trees {
		states += len(t.states)
		trans += t.trans
		runs += t.runs
		histories += t.histories
		agg.Methods += t.stats.Methods
		agg.Decls += t.stats.Decls
		agg.Imports += t.stats.Imports
		agg.Masked += t.stats.Masked
		compiled += t.compiled
		all = append(all, t.findings...)
	}
	sort.SliceStable(all, func(i, j int) bool {
		if all[i].Tree != all[j].Tree {
			return all[i].Tree < all[j].Tree
		}
		if len(all[i].Path) != len(all[j].Path) {
			return len(all[i].Path) < len(all[j].Path)
		}
		return strings.Join(all[i].Path, "|") < strings.Join(all[j].Path, "|")
	})
	sigCount := map[string]int{}
	for _, f := range all {
		sigCount[f.C.Sig]++
		check.Report(f.C.Sig, f.C.What+fmt.Sprintf("  [tree: %v; history: %v]", trees[f.Tree].Spec, f.Path), Replay{Tree: trees[f.Tree].Spec, Path: f.Path})
	}
	// samples: a few histories as executed
	for _, i := range []int{0, len(trees) / 2, len(trees) - 1} {
		t := trees[i]
		check.Sample(map[string]any{"tree": t.Spec.String(), "depth_bound": t.Depth, "states": len(t.states), "generator_runs": t.runs,
			"example_history": append([]string{"<user edits fresh tree>"}, exampleHistory(t)...)})
	}
	var treeDesc []string
	byDepth := map[int]int{}
	for _, t := range trees {
		byDepth[t.Depth]++
		treeDesc = append(treeDesc, fmt.Sprintf("%v depth<=%d", t.Spec, t.Depth))
	}
	check.Cov["states"] = states
	check.Cov["transitions"] = trans
	check.Cov["traces_validated_against_impl"] = runs
	check.Cov["histories_closed_with_two_regenerations"] = histories
	check.Cov["go_builds"] = int(builds.Load())
	if n := scratchRetries.Load(); n > 0 {
		check.Cov["steps_repeated_because_scratch_dir_was_removed_from_outside"] = int(n)
	}
	check.Cov["oracle"] = map[string]int{"surviving_methods_compared": agg.Methods, "other_declarations_looked_up": agg.Decls,
		"import_requirements_checked": agg.Imports, "checks_masked_by_unparseable_file": agg.Masked, "compile_clause_evaluated": compiled}
	check.Cov["complaints_by_signature"] = sigCount
	check.Cov["exhaustive"] = !expired
	var evNames []string
	for _, e := range baseEvents {
		evNames = append(evNames, e.Name)
	}
	var exNames []string
	for _, e := range extraEvents {
		exNames = append(exNames, e.Name)
	}
	var bn, dn []string
	for _, b := range bodies {
		bn = append(bn, b.Name)
	}
	for _, d := range decls {
		dn = append(dn, d.Name)
	}
	check.Cov["bounds"] = map[string]any{
		"initial_trees":        len(trees),
		"trees_by_depth_bound": byDepth,
		"events":               evNames,
		"extra_events_on_some_depth1_trees_thorough": exNames,
		"body_alphabet": bn,
		"package_names_reserved_by_resolver_gotpl_shadowed": templateNames,
		"declaration_alphabet":                              dn,
		"resolver_options":                                  map[string]any{"type": []string{"Resolver (default)", optTypes[1], optTypes[2]}, "filename_template": []string{"{name}.resolvers.go (default)", optFileTmpl, optFileNoName}, "schema_files": []string{"a.graphql+b.graphql (default)", "same-base: schema/a/types.graphql+schema/b/types.graphql", "case: types.graphql+Types.graphql"}, "file_encoding": encodings, "receiver_shapes": recvShapes, "omit_template_comment": []bool{false, true}, "preserve_resolver": []bool{false, true}},
		"layouts":                                           []string{layoutFollow, layoutSingle},
		"closure":                                           "every history is followed by two regenerations",
		"state_identity":                                    "SHA-256 over layout, current schema files, schema of last generation, hand-editable Go files of the resolver package",
		"trees":                                             treeDesc,
	}
	check.Assume = []string{
		"the generator is deterministic for a given tree (C18), so a (state, regen) transition is executed once",
		"generated.go/models_gen.go are a function of the schema of the last generation and are represented by it in the state",
		"field and type names are plain ASCII words; resolver methods are identified as <object>Resolver.<UcFirst(field)>",
	}
	if expired {
		fmt.Printf("C19: internal budget expired; completed levels are reported, exhaustive=false\n")
	}
	fmt.Printf("C19 %s: %d trees, %d states, %d transitions, %d generator runs, %d go builds, %d complaints in %d signatures\n",
		check.Tier, len(trees), states, trans, runs, builds.Load(), len(all), len(sigCount))
	check.Finish()
}

func exampleHistory(t *Tree) []string {
	// the last history of the deepest completed level, with its closing regenerations
	return append(append([]string{}, t.lastPath...), "regen", "regen")
}

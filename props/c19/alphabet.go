package main

import (
	"fmt"
	"os"
	"path/filepath"
	"regexp"
	"strings"

	"verif/common"
)

// Adversarial alphabets for user-written resolver files.
//
// A BodyElem describes how ONE resolver method is rewritten by "the user": doc comment,
// receiver name, context parameter name, named results and the statements of the body.
// "$M" is replaced by <receiver type>.<method name>, so that every method of a tree has a
// distinct body and a mix-up between methods is visible to the oracle.
// Every body compiles inside any resolver signature (it only uses ctx, fmt and locals and
// ends in panic or, with named results, a bare return).
type BodyElem struct {
	Name    string
	Doc     string // "" = keep the comment the generator wrote
	Recv    string // "" = r
	Ctx     string // "" = ctx
	Named   bool   // results become (res T, err error)
	OneLine bool   // { body } on the signature line
	Tight   bool   // with OneLine: {body}
	Body    string
}

const plainBody = "\tpanic(fmt.Errorf(\"impl $M\"))"

// ordered simplest first
var bodies = []BodyElem{
	{Name: "plain", Body: plainBody},
	{Name: "nested-braces", Body: `	type pt struct{ X, Y int }
	m := map[string][]pt{"$M": {{1, 2}, {3, 4}}}
	for k, v := range m {
		if len(v) > 1 {
			switch {
			case k == "":
				{
					_ = k
				}
			default:
				_ = struct{ A struct{ B int } }{}
			}
		}
	}
	panic(fmt.Errorf("impl $M"))`},
	{Name: "braces-in-strings", Body: `	l1 := "} { $M }} {{"
	l2 := '}'
	l3 := '{'
	l4 := "\"}"
	l5 := '"'
	_, _, _, _, _ = l1, l2, l3, l4, l5
	panic(fmt.Errorf("impl $M }"))`},
	{Name: "braces-in-rawstring", Body: "\tls := `}\n{ $M\n\t}}\n  {{ \"\n`\n\t_ = ls\n\tpanic(fmt.Errorf(`impl $M {`))"},
	{Name: "braces-in-line-comments", Body: `	// } a closing brace in a line comment of $M
	lx := 1 // { and an opening one
	// "unterminated string in a comment
	_ = lx
	panic(fmt.Errorf("impl $M"))`},
	{Name: "closures", Body: `	f := func(n int) (int, error) {
		if n < 0 {
			return 0, fmt.Errorf("neg")
		}
		return n, nil
	}
	defer func() {
		if p := recover(); p != nil {
			panic(p)
		}
	}()
	go func() {}()
	_, _ = f(len("$M"))
	panic(fmt.Errorf("impl $M"))`},
	{Name: "labelled-loops", Body: `outer:
	for i := 0; i < 3; i++ {
	inner:
		for j := 0; j < 3; j++ {
			switch {
			case j == 1:
				continue outer
			case j == 2:
				break inner
			case i == 2:
				break outer
			}
		}
	}
	goto done
done:
	panic(fmt.Errorf("impl $M"))`},
	{Name: "named-results-bare-return", Named: true, Body: `	defer func() {
		if err != nil {
			err = fmt.Errorf("$M: %w", err)
		}
	}()
	_ = res
	err = fmt.Errorf("impl $M")
	return`},
	{Name: "edge-comments", Body: `	// leading comment of $M

	panic(fmt.Errorf("impl $M"))
	// trailing comment of $M`},
	{Name: "non-ascii", Doc: "// $M \u2013 r\u00e9sum\u00e9 \u2713 (multi-byte text before and inside the body).", Body: "\tl1 := \"h\u00e9llo \u2713 } \u4e16\u754c {\"\n\t// \u00fcber-comment }\n\t_ = l1\n" + plainBody},
	{Name: "one-line-tight", OneLine: true, Tight: true, Body: `panic(fmt.Errorf("impl $M"))`}, // {stmt} without blanks: valid Go, not gofmt-ed
	{Name: "doc-blank-lines", Doc: "// $M has a long doc comment.\n//\n// Second paragraph after a blank comment line:\n//   - item one\n//   - item two\n//\n// Deprecated: third paragraph of $M.", Body: plainBody},
	{Name: "doc-go-directive", Doc: "// $M must not be inlined.\n//\n//go:noinline", Body: plainBody},
	{Name: "doc-nolint-directive", Doc: "// $M is long on purpose.\n//\n//nolint:gocyclo,funlen // accepted", Body: plainBody},
	{Name: "receiver-renamed", Recv: "q", Body: "\t_ = q.$ROOT\n" + plainBody},
	{Name: "ctx-param-renamed", Ctx: "c", Body: "\t_ = c.Err()\n" + plainBody},
	{Name: "terminator-in-string", Body: `	ls := "*/ $M /*"
	_ = ls
	panic(fmt.Errorf("impl $M"))`},
	{Name: "terminator-in-rawstring", Body: "\tls := `\n*/ $M\n/*\n`\n\t_ = ls\n\tpanic(fmt.Errorf(\"impl $M\"))"},
	{Name: "terminator-in-comments", Body: `	// */ in a line comment of $M, and /* as well
	lx := 1 /* a block comment with } and { */
	_ = lx
	panic(fmt.Errorf("impl $M"))`},
}

// A DeclElem is something the user adds to a resolver file besides resolver methods.
// "$F" is replaced by a per-file tag (A, B for follow-schema files, S for the single file) so
// that the same element can be put into several files of one package.
// Use is a statement put at the top of every user-written resolver body of that file.
// Group: elements of the same group are additionally explored together in one tree.
type DeclElem struct {
	Name    string
	Group   string
	Imports []string // import specs added to the file
	SepImp  bool     // write each spec as its own import declaration
	Decls   string   // top-level declarations added to the file
	Use     string
	OnlyB   bool // follow-schema: only b.resolvers.go gets it
	// Twin: for EVERY resolver method of the file, hand-written methods whose names collide
	// with it under a plausible relaxation of "same method" are added in four places: a file
	// of the package that sorts before every resolver file, above the resolver methods in the
	// resolver file, below them, and a file that sorts after. Relaxations:
	//   "case"     same receiver type, name equal under case folding (alpha, ALPHA, aLPHA, alphA)
	//   "receiver" same name on another receiver type
	//   "affix"    same receiver type, name with a suffix / prefix (AlphaImpl, DoAlpha, Alpha2, doAlpha)
	Twin string
}

var decls = []DeclElem{
	{Name: "none"},
	{Name: "helper-func", Group: "decls", Use: "_ = helper$F(1)",
		Decls: "// helper$F is a user helper.\nfunc helper$F(x int) int {\n\tif x > 0 {\n\t\treturn x\n\t}\n\treturn -x\n}"},
	{Name: "method-on-resolver", Group: "decls", Use: "_ = r.userHelper$F()",
		Decls: "func (r *$ROOT) userHelper$F() string { return \"h$F\" }\n\n// userLower$F is not a schema field.\nfunc (r *$QRES) userLower$F(s string) string {\n\tfor range s {\n\t}\n\treturn s\n}"},
	{Name: "type-decl", Group: "decls", Use: "_ = userType$F{}",
		Decls: "// userType$F is a user type.\ntype userType$F struct {\n\tA int\n\tB map[string]struct{ C []int }\n}\n\ntype (\n\tuserAlias$F = userType$F\n\tuserIface$F interface{ M$F() }\n)"},
	{Name: "var-decl", Group: "decls", Use: "_ = userVar$F",
		Decls: "var userVar$F = []string{\"}\", \"{\"}\n\nvar (\n\tuserX$F, userY$F = 1, 2\n)"},
	{Name: "const-decl", Group: "decls", Use: "_ = userConst$F",
		Decls: "const userConst$F = \"c$F\"\n\nconst (\n\tuserIotaA$F = iota\n\tuserIotaB$F\n)"},
	{Name: "init-func", Group: "decls",
		Decls: "func init() {\n\tif false {\n\t\tpanic(\"init $F\")\n\t}\n}"},
	{Name: "twin-methods-case-fold", Group: "decls", Twin: "case"},
	{Name: "twin-methods-other-receiver", Group: "decls", Twin: "receiver"},
	{Name: "twin-methods-affix", Group: "decls", Twin: "affix"},
	{Name: "import-plain", Group: "imports", Imports: []string{`"os"`}, Use: `_ = os.Getenv("$F")`},
	{Name: "import-alias", Group: "imports", Imports: []string{`str "strings"`}, Use: `_ = str.ToUpper("$F")`},
	{Name: "import-dot", Group: "imports", Imports: []string{`. "unicode/utf8"`}, Use: `_ = RuneLen('x')`},
	{Name: "import-blank", Group: "imports", Imports: []string{`_ "embed"`}},
	{Name: "import-separate-decls", Group: "imports", SepImp: true, Imports: []string{`xb "bufio"`, `"sort"`}, Use: `_, _ = xb.MaxScanTokenSize, sort.Ints`},
	{Name: "import-alias-shadowed", Group: "imports", Imports: []string{`shd "unicode"`},
		Use: "_ = shd.IsUpper('$F')\n\t{\n\t\tshd := struct{ Field int }{1} // local that shadows the user's import alias\n\t\t_ = shd.Field\n\t}\n\tfunc(shd struct{ Field int }) { _ = shd.Field }(struct{ Field int }{})"},
	{Name: "import-alias-b-only", Group: "imports2", OnlyB: true, Imports: []string{`str "strings"`}, Use: `_ = str.ToUpper("$F")`},
	{Name: "import-alias-suffix-of-path", Group: "imports2", Imports: []string{`h "path"`}, Use: `_ = h.Base("$F")`},
	{Name: "import-alias-of-template-import", Group: "imports2", Imports: []string{`sc "strconv"`}, Use: `_ = sc.Itoa(1)`},
	{Name: "import-two-blank", Group: "imports2", Imports: []string{`_ "embed"`, `_ "image/png"`}},
	{Name: "import-two-dot", Group: "imports2", Imports: []string{`. "math/bits"`, `. "unicode/utf8"`}, Use: `_, _ = LeadingZeros8(1), RuneLen('x')`},
	{Name: "helper-with-terminator-in-string", Group: "decls", Decls: "func userTerm$F() int { return len(\"*/\") }"},
	{Name: "helper-with-block-comment", Group: "decls", Decls: "func userBlk$F() int {\n\t/* inner comment */\n\treturn 1\n}"},
}

var identRe = regexp.MustCompile(`^[A-Za-z_][A-Za-z0-9_]*$`)

// templateImportNames reads the reserveImport list of resolver.gotpl of the tree under test and
// returns the local names those packages get (last path element, or the one before a /vN).
func templateImportNames() ([]string, error) {
	b, err := os.ReadFile(filepath.Join(common.RepoDir(), "plugin", "resolvergen", "resolver.gotpl"))
	if err != nil {
		return nil, err
	}
	var out []string
	seen := map[string]bool{}
	for _, m := range regexp.MustCompile(`reserveImport\s+"([^"]+)"`).FindAllStringSubmatch(string(b), -1) {
		parts := strings.Split(m[1], "/")
		n := parts[len(parts)-1]
		if regexp.MustCompile(`^v[0-9]+$`).MatchString(n) && len(parts) > 1 {
			n = parts[len(parts)-2]
		}
		if identRe.MatchString(n) && !seen[n] {
			seen[n] = true
			out = append(out, n)
		}
	}
	if len(out) == 0 {
		return nil, fmt.Errorf("no reserveImport lines found in resolver.gotpl")
	}
	return out, nil
}

// addTemplateShadowBody appends the body element whose locals, closure parameters, closure
// variables and closure results SHADOW every package name the resolver template reserves and
// are used as selector bases (time := ...; time.Field). The file makes no genuine use of those
// packages (except context and fmt, shadowed in inner scopes only).
func addTemplateShadowBody() error {
	names, err := templateImportNames()
	if err != nil {
		return err
	}
	var b strings.Builder
	for _, n := range names {
		fmt.Fprintf(&b, "\t{\n\t\t%s := struct{ Field int }{1} // local named like a package the template imports\n\t\t_ = %s.Field\n\t}\n", n, n)
		fmt.Fprintf(&b, "\tfunc(%s struct{ Field int }) { _ = %s.Field }(struct{ Field int }{})\n", n, n)
		fmt.Fprintf(&b, "\tfunc() {\n\t\tvar %s struct{ Field int }\n\t\t_ = %s.Field\n\t}()\n", n, n)
		fmt.Fprintf(&b, "\t_ = func() (%s struct{ Field int }) {\n\t\t%s.Field = len(\"$M\")\n\t\treturn\n\t}()\n", n, n)
	}
	bodies = append(bodies, BodyElem{Name: "shadow-template-imports", Body: b.String() + plainBody})
	templateNames = names
	return nil
}

var templateNames []string

func bodyByName(n string) *BodyElem {
	for i := range bodies {
		if bodies[i].Name == n {
			return &bodies[i]
		}
	}
	return nil
}

func declByName(n string) *DeclElem {
	for i := range decls {
		if decls[i].Name == n {
			return &decls[i]
		}
	}
	return nil
}

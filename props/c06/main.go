// C06: results are independent of resolver scheduling; mutation roots run serially.
// Model checking: every interleaving (within a preemption bound) of the resolver yield
// points and runtime synchronisation of generated code, for a corpus of operations and
// outcome plans, in several worker_limit configurations; each schedule's response must
// equal the reference executor's and mutation root fields must not overlap.
package main

import "verif/exech/driver"

func main() {
	q := []driver.ProbeConfig{driver.CfgDefault, driver.CfgWorker1, driver.CfgWorker2, driver.CfgRenamedRoots}
	t := []driver.ProbeConfig{driver.CfgDefault, driver.CfgWorker1, driver.CfgWorker2, driver.CfgRenamedRoots, driver.CfgFollowSchema, driver.CfgFuncSyntax}
	sq := []driver.ProbeConfig{driver.CfgDefault, driver.CfgWorker2}
	st := []driver.ProbeConfig{driver.CfgDefault, driver.CfgWorker1, driver.CfgWorker2, driver.CfgFollowSchema}
	driver.SchedCheck2("C06", q, t, sq, st, map[string]int{"quick": 3, "thorough": 4}, []string{
		"scheduling points: every resolver call (a yield inside the universal resolver), lock acquisitions, WaitGroup waits, atomics, channel operations, semaphore operations of the instrumented generated code and runtime",
		"memory-level data races are invisible to a cooperative scheduler; they are the subject of the separate free-running -race pass (not the deciding step)",
		"corpus of operations (not all operations) over both probe schemas (exec, shapes): C01 covers breadth on the default schedule",
	})
}

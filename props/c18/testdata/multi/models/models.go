// Package models holds hand-written models picked up through autobind.
package models

import "time"

type Address struct {
	Street *string
	City   string
}

type PageInfo struct {
	HasNext bool
	End     *string
}

type Review struct {
	Stars    int
	Text     *string
	AuthorID string
}

type Role string

const (
	RoleAdmin    Role = "ADMIN"
	RoleStaff    Role = "STAFF"
	RoleCustomer Role = "CUSTOMER"
)

type Stamp struct {
	CreatedAt *time.Time
	UpdatedAt *time.Time
}

// Inner scopes that reuse the names of the bound package-level types.
func DecodeLegacy(Review map[string]string) (PageInfo int) {
	{
		type Review struct{ ID string }
		type Address struct{ Line string }
		type Role int
		r := Review{ID: "1"}
		a := Address{Line: "x"}
		var Stamp Role = 2
		PageInfo := len(r.ID) + len(a.Line) + int(Stamp)
		_ = PageInfo
	}
	const Stamp = "s"
	return len(Review) + len(Stamp)
}

type Envelope struct {
	Review   string
	Address  int
	PageInfo bool
}

func (e Envelope) Role(Address string) (Review string) { return e.Review + Address }

func init() {
	type Address struct{ Zip string }
	_ = Address{Zip: "0"}
}

// Package models holds hand-written models picked up through autobind.
package models

import "time"

type Address struct {
	Street *string
	City   string
}

type PageInfo struct {
	HasNext bool
	End     *string
}

type Review struct {
	Stars    int
	Text     *string
	AuthorID string
}

type Role string

const (
	RoleAdmin    Role = "ADMIN"
	RoleStaff    Role = "STAFF"
	RoleCustomer Role = "CUSTOMER"
)

type Stamp struct {
	CreatedAt *time.Time
	UpdatedAt *time.Time
}

// Package billing is a second autobind package.
package billing

type Invoice struct {
	Number string
	Amount int
	Paid   bool
	Secret *string
}

// Review also exists in probe/models; autobind must keep taking the first package listed.
type Review struct {
	Stars    int
	Text     *string
	AuthorID string
	Billing  bool
}

// Inner scopes reusing bound names in the second autobind package.
func Reconcile(Invoice []string) (Review int) {
	type invoiceRow = struct{ N int }
	n := 0
	{
		type Invoice struct{ LegacyNumber int }
		type Review struct{ Legacy bool }
		i, r := Invoice{LegacyNumber: 1}, Review{Legacy: true}
		if r.Legacy {
			n = i.LegacyNumber
		}
	}
	Review = n
	return Review + len(Invoice) + invoiceRow{N: 1}.N
}

// Package billing is a second autobind package.
package billing

type Invoice struct {
	Number string
	Amount int
	Paid   bool
	Secret *string
}

// Review also exists in probe/models; autobind must keep taking the first package listed.
type Review struct {
	Stars    int
	Text     *string
	AuthorID string
	Billing  bool
}

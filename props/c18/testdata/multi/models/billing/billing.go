// Package billing is a second autobind package.
package billing

type Invoice struct {
	Number string
	Amount int
	Paid   bool
	Secret *string
}

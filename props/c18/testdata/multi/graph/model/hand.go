// Hand-written models living in the package that also receives models_gen.go; the package is
// listed under autobind, so these types are bound and the generated file sits next to them.
package model

type AddressInput struct {
	Street *string
	City   string
}

type URLInfo struct {
	RawURL string
}

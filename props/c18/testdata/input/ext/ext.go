// Package ext holds hand-written Go types the input project binds to.
package ext

import (
	"fmt"
	"io"
	"strconv"
)

// Money is a custom scalar.
type Money int64

func (m Money) MarshalGQL(w io.Writer) { io.WriteString(w, strconv.FormatInt(int64(m), 10)) }

func (m *Money) UnmarshalGQL(v any) error {
	switch v := v.(type) {
	case int:
		*m = Money(v)
	case int64:
		*m = Money(v)
	case string:
		n, err := strconv.ParseInt(v, 10, 64)
		if err != nil {
			return err
		}
		*m = Money(n)
	default:
		return fmt.Errorf("%T is not money", v)
	}
	return nil
}

// Point is a hand-written input model.
type Point struct {
	X     int
	Y     int
	Label *string
}

// Shade is a hand-written enum bound through enum_values.
type Shade int

const (
	ShadeDark Shade = iota
	ShadeLight
)

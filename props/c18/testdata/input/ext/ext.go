// Package ext holds hand-written Go types the input project binds to.
package ext

import (
	"fmt"
	"io"
	"strconv"
)

// Money is a custom scalar.
type Money int64

func (m Money) MarshalGQL(w io.Writer) { io.WriteString(w, strconv.FormatInt(int64(m), 10)) }

func (m *Money) UnmarshalGQL(v any) error {
	switch v := v.(type) {
	case int:
		*m = Money(v)
	case int64:
		*m = Money(v)
	case string:
		n, err := strconv.ParseInt(v, 10, 64)
		if err != nil {
			return err
		}
		*m = Money(n)
	default:
		return fmt.Errorf("%T is not money", v)
	}
	return nil
}

// Point is a hand-written input model.
type Point struct {
	X     int
	Y     int
	Label *string
}

// Shade is a hand-written enum bound through enum_values.
type Shade int

const (
	ShadeDark Shade = iota
	ShadeLight
)

// Inner scopes that reuse the names of the bound package-level objects (types Money, Point,
// Shade and the enum constants ShadeDark / ShadeLight).
func ParseLegacy(Money string) (Point int) {
	{
		type Money struct{ Cents int }
		type Point struct{ Lat, Lng float64 }
		type Shade string
		const ShadeDark Shade = "dark"
		var ShadeLight = Shade("light")
		m, p := Money{Cents: 1}, Point{Lat: 1}
		_, _, _, _ = m, p, ShadeDark, ShadeLight
	}
	return len(Money)
}

type Swatch struct {
	Shade Shade
	Point Point
	Money Money
}

func (s Swatch) ShadeDark(Shade Shade) (Money Money) { return s.Money }

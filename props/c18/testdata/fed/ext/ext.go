// Package ext holds hand-written entity models (a second model package next to graph/model).
package ext

// Warehouse is an entity with a @requires field, bound by hand.
type Warehouse struct {
	ID       string
	Capacity int
	Region   string
	Load     int
}

func (Warehouse) IsEntity() {}

// Zone is a second hand-written entity with a @requires field.
type Zone struct {
	Code  string
	Area  int
	Score int
}

func (Zone) IsEntity() {}

// Inner scopes that reuse the names of the bound package-level types: function-local types,
// vars and consts, parameter and result names, method names and struct field names.
func DecodeLegacy(Warehouse string) (Zone int) {
	type Warehouse2 = struct{ Old string }
	{
		type Warehouse struct{ LegacyID string }
		type Zone struct{ LegacyCode string }
		w := Warehouse{LegacyID: "w"}
		z := Zone{LegacyCode: "z"}
		total := len(w.LegacyID) + len(z.LegacyCode)
		_ = total
	}
	const Region = "r"
	var Capacity = len(Region)
	return Capacity + len(Warehouse)
}

type Shelf struct {
	Warehouse string
	Zone      int
}

func (s Shelf) Warehouse2(Zone string) string { return s.Warehouse + Zone }

var (
	DefaultRegion = "north"
	DefaultLoad   = 0
)

const (
	MaxZones     = 8
	MaxWarehouse = 64
)

// Package ext holds hand-written entity models (a second model package next to graph/model).
package ext

// Warehouse is an entity with a @requires field, bound by hand.
type Warehouse struct {
	ID       string
	Capacity int
	Region   string
	Load     int
}

func (Warehouse) IsEntity() {}

// Zone is a second hand-written entity with a @requires field.
type Zone struct {
	Code  string
	Area  int
	Score int
}

func (Zone) IsEntity() {}

// C18 - generation is deterministic and idempotent.
//
// Model checking of the real generator over its environment answers: the generator packages of
// the tree under test are rewritten by cmd/vinstr (map-range rule only) so that every
// `for k, v := range m` over a map with orderable keys iterates in an order chosen by this check
// (VERIF_MAPORDER). Run 0 of every project uses sorted order everywhere and records which sites
// executed; then every executed site is deviated on its own (reversed, rotated), thorough also
// deviates every pair of sites and all sites at once. The other environment axes are the start
// directory (config dir, sub-directory, nested sub-directory) and GOMAXPROCS (1, 16). Every
// run is a separate process on a freshly restored project tree and is a 2-step history
// (generate on the clean tree -> T1, generate again on T1 -> T2); the sorted baseline goes one
// step further (T3). A later generation that fails where the first succeeded is a violation.
//
// Oracle (independent of the generator: it only hashes files):
//
//	O1  for every run and step k, the tree equals the tree of the sorted baseline run at step k
//	O2  for every run, T2 == T1 byte for byte
//
// go.mod / go.sum are left out of the trees (rewritten by the go command, not by gqlgen).
package main

import (
	"encoding/json"
	"fmt"
	"os"
	"runtime"
	"sort"
	"strconv"
	"strings"
	"sync"
	"time"

	"verif/common"
	"verif/probe"
)

var c *common.Check

type ctx struct {
	dir   string
	procs int
}

// job is one history to execute plus how its deviation is described in signatures.
type job struct {
	spec  runSpec
	sites []string // deviated sites (nil for sorted, ["*"] for rev:*)
	phase string
}

type outcome struct {
	job       job
	res       runResult
	rerun     *runResult // second execution of the same spec when O1 failed (reproducibility)
	execs     int
	comparedN int
}

// projState is what the coordinator keeps per project.
type projState struct {
	p          *project
	base       runResult
	sites      []string
	variants   map[string]string // file|sha(content) -> signature of the single-site finding that produced it
	hashes     map[string]bool   // distinct tree hashes over all runs and steps... of step-k trees: key "k:hash"
	orderDep   map[string]bool   // files with an order-dependence finding
	aborted    bool              // baseline history failed after step 1: nothing to compare further runs with
	o2Reported map[string]bool   // files with an unlisted idempotence violation already reported
}

func main() {
	c = common.New("C18", "model_checking")
	defer probe.Cleanup()
	quick := c.Tier == "quick"
	if quick {
		c.Budget(150 * time.Second)
	} else {
		c.Budget(20 * time.Minute)
	}
	if v := os.Getenv("VERIF_C18_BUDGET_S"); v != "" { // development aid on an overloaded machine
		if n, err := strconv.Atoi(v); err == nil {
			c.Budget(time.Duration(n) * time.Second)
		}
	}
	c.MaxSamp = 9
	r := buildRig()
	if rp := common.ReplayArg(); rp != "" {
		replay(r, rp)
		probe.Cleanup()
		return
	}

	var projs []*project
	only := os.Getenv("VERIF_C18_PROJECTS") // development aid: comma separated project names
	for _, p := range projects() {
		if only != "" {
			if strings.Contains(","+only+",", ","+p.Name+",") {
				projs = append(projs, p)
			}
			continue
		}
		if !quick || p.Quick {
			projs = append(projs, p)
		}
	}
	if only != "" {
		fmt.Printf("note: VERIF_C18_PROJECTS=%s restricts this run (not the registered space)\n", only)
	}
	nw := runtime.NumCPU()
	if nw > 16 {
		nw = 16
	}
	if nw < 2 {
		nw = 2
	}

	var (
		mu         sync.Mutex
		execs      int // generator executions (transitions)
		compared   int // executions whose tree was compared by the oracle
		states     = map[string]bool{}
		exhaustive = true
		incomplete []string
	)
	addState := func(s runSpec, steps int) {
		for k := 1; k <= steps; k++ {
			states[fmt.Sprintf("%s|%s|%s|%d|%v|%d", s.Project, s.MapOrder, s.StartDir, s.MaxProcs, s.Plain, s.firstStep()+k)] = true
		}
	}

	// ---- phase 0: sorted baseline of every project (also records executed sites) ----------
	sts := make([]*projState, len(projs))
	baseFailed := make([][]runResult, len(projs))
	{
		var wg sync.WaitGroup
		for i, p := range projs {
			wg.Add(1)
			go func(i int, p *project) {
				defer wg.Done()
				spec := runSpec{Project: p.Name, StartDir: p.StartDirs[0], MaxProcs: 16, Steps: 3}
				res := r.execute(i, p, nil, spec, true)
				// a baseline that fails on the clean tree is retried in fresh processes: a project
				// that fails identically every time is broken machinery, one that fails differently
				// or only sometimes is a generator whose outcome depends on the process
				var failed []runResult
				for a := 0; a < 4 && res.Err == nil && len(res.Steps) > 0 && res.Steps[0].Exit != 0; a++ {
					failed = append(failed, res)
					res = r.execute(i, p, nil, spec, true)
				}
				baseFailed[i] = failed
				sts[i] = &projState{p: p, base: res, sites: res.Sites, variants: map[string]string{}, hashes: map[string]bool{}, orderDep: map[string]bool{}, o2Reported: map[string]bool{}}
			}(i, p)
		}
		wg.Wait()
	}
	for i, st := range sts {
		b := st.base
		if b.Err != nil {
			broken("baseline run of %s: %v", st.p.Name, b.Err)
		}
		for _, f := range baseFailed[i] {
			execs += len(f.Steps)
			compared += len(f.Steps)
		}
		if len(b.Steps) == 0 {
			broken("baseline run of %s executed nothing", st.p.Name)
		}
		if failed := baseFailed[i]; len(failed) > 0 {
			all := append(append([]runResult{}, failed...), b)
			outcomes := map[string]bool{}
			var descr []string
			for _, f := range all {
				outcomes[fmt.Sprintf("%d|%s|%s", f.Steps[0].Exit, f.Steps[0].Output, treeHash(f.Steps[0].Tree))] = true
				descr = append(descr, fmt.Sprintf("exit %d: %s", f.Steps[0].Exit, firstLine(f.Steps[0].Output)))
			}
			if len(outcomes) == 1 {
				// identical failures under sorted order: does any other map order succeed?
				alt := spec0(st.p)
				alt.MapOrder, alt.Steps = "rev:*", 1
				ar := r.execute(i, st.p, nil, alt, false)
				if ar.Err == nil && len(ar.Steps) == 1 {
					execs++
					compared++
					addState(alt, 1)
					if ar.Steps[0].Exit == 0 {
						c.Report(fmt.Sprintf("generation-outcome-order-dependent:%s:clean-tree", st.p.Name),
							fmt.Sprintf("generation of project %s on the clean tree fails with sorted map order (exit %d: %s) and succeeds with every map range reversed", st.p.Name, b.Steps[0].Exit, firstLine(b.Steps[0].Output)),
							map[string]any{"spec": alt, "kind": "failure", "sorted_output": b.Steps[0].Output})
						st.aborted = true
						exhaustive = false
						incomplete = append(incomplete, fmt.Sprintf("project %s: sorted baseline fails, reversed order succeeds; no further histories executed for it", st.p.Name))
						continue
					}
				}
				broken("baseline generation of project %s on the clean tree failed %d times identically (exit %d):\n%s", st.p.Name, len(all), b.Steps[0].Exit, b.Steps[0].Output)
			}
			c.Report(fmt.Sprintf("unstable-generation:%s:clean-tree", st.p.Name),
				fmt.Sprintf("%d executions of the identical history %s (sorted map order, clean tree, separate processes) ended in %d different outcomes", len(all), b.Spec, len(outcomes)),
				map[string]any{"spec": b.Spec, "kind": "determinism", "outcomes": descr})
			if b.Steps[0].Exit != 0 {
				st.aborted = true
				exhaustive = false
				incomplete = append(incomplete, fmt.Sprintf("project %s: no successful baseline in %d attempts, no further histories executed for it", st.p.Name, len(all)))
				continue
			}
		}
		if len(st.sites) == 0 {
			broken("baseline run of %s executed no instrumented map site (VERIF_MAPSITES_OUT not honoured?)", st.p.Name)
		}
		execs += len(b.Steps)
		compared += len(b.Steps)
		addState(b.Spec, len(b.Steps))
		for k, s := range b.Steps {
			st.hashes[fmt.Sprintf("%d:%s", k+1, treeHash(s.Tree))] = true
		}
		// the baseline history is T1 = generate on the clean tree, T2 = generate on T1, T3 = generate
		// on T2: a later step that fails where the first succeeded is a violation, not broken machinery
		if last := b.Steps[len(b.Steps)-1]; last.Exit != 0 {
			k := len(b.Steps)
			var lost []string
			for _, f := range differingFiles(b.Steps[k-2].Tree, last.Tree) {
				lost = append(lost, f)
			}
			c.Report(fmt.Sprintf("regeneration-fails:%s:step%d", st.p.Name, k),
				fmt.Sprintf("generation %d of the history %s (run on the untouched output of generation %d) exits %d: %s", k, b.Spec, k-1, last.Exit, firstLine(last.Output)),
				map[string]any{"spec": b.Spec, "kind": "failure", "step": k, "output": last.Output, "files_changed_or_removed_by_the_failing_run": lost})
			st.aborted = true
			exhaustive = false
			incomplete = append(incomplete, fmt.Sprintf("project %s: baseline history failed at step %d, no further histories executed for it", st.p.Name, k))
			continue
		}
		checkIdempotent(st, b, b.Spec)
	}

	// ---- job lists ----------------------------------------------------------------------
	// phase A: sorted order from every context, every single-site deviation
	// phase B: multi-site deviations (all sites reversed; thorough: all pairs of sites)
	// phase C: the un-instrumented generator
	pairProjects := map[string]bool{"multi": true, "input": true, "fed": true}
	var phaseA, phaseB, phaseC []job
	for _, st := range sts {
		if st.aborted {
			continue
		}
		p := st.p
		ctxs := []ctx{}
		for _, d := range p.StartDirs {
			for _, n := range []int{1, 16} {
				ctxs = append(ctxs, ctx{d, n})
			}
		}
		// environment axis: sorted (and all-reversed) from every start dir x GOMAXPROCS
		for i, cx := range ctxs {
			if !(cx.dir == p.StartDirs[0] && cx.procs == 16) { // that one is the baseline
				phaseA = append(phaseA, job{spec: runSpec{Project: p.Name, StartDir: cx.dir, MaxProcs: cx.procs, Steps: 2}, phase: "context"})
			}
			if !quick || i == 0 || i == 5 {
				phaseB = append(phaseB, job{spec: runSpec{Project: p.Name, MapOrder: "rev:*", StartDir: cx.dir, MaxProcs: cx.procs, Steps: 2}, sites: []string{"*"}, phase: "all-sites"})
			}
		}
		// single deviations, contexts taken round-robin. quick: one generator run per site on
		// the baseline's T1 (the prefix "sorted generation on the clean tree" is shared), site
		// reversed. thorough: the full 2-step history from the clean tree with the site
		// deviated in both steps, reversed and rotated.
		n := 0
		for _, s := range st.sites {
			if quick {
				cx := ctxs[n%len(ctxs)]
				n++
				phaseA = append(phaseA, job{spec: runSpec{Project: p.Name, MapOrder: "rev:" + s, StartDir: cx.dir, MaxProcs: cx.procs, Steps: 1, FromT1: true}, sites: []string{s}, phase: "single"})
				continue
			}
			for _, m := range []string{"rev", "rot"} {
				cx := ctxs[n%len(ctxs)]
				n++
				phaseA = append(phaseA, job{spec: runSpec{Project: p.Name, MapOrder: m + ":" + s, StartDir: cx.dir, MaxProcs: cx.procs, Steps: 2}, sites: []string{s}, phase: "single"})
			}
		}
		// pairs of sites reversed (thorough; the three large projects), one run on T1 each
		if !quick && pairProjects[p.Name] {
			for i := 0; i < len(st.sites); i++ {
				for j := i + 1; j < len(st.sites); j++ {
					cx := ctxs[n%len(ctxs)]
					n++
					a, b := st.sites[i], st.sites[j]
					phaseB = append(phaseB, job{spec: runSpec{Project: p.Name, MapOrder: "rev:" + a + ";rev:" + b, StartDir: cx.dir, MaxProcs: cx.procs, Steps: 1, FromT1: true}, sites: []string{a, b}, phase: "pair"})
				}
			}
		}
		// the un-instrumented generator (Go's own per-process random map order): must agree
		plainCtx := []ctx{ctxs[3]}
		if !quick {
			plainCtx = []ctx{ctxs[0], ctxs[3], ctxs[4], ctxs[1]}
		}
		for _, cx := range plainCtx {
			phaseC = append(phaseC, job{spec: runSpec{Project: p.Name, StartDir: cx.dir, MaxProcs: cx.procs, Steps: 2, Plain: true}, phase: "plain"})
		}
	}
	// interleave projects so that a budget expiry thins every project alike
	interleave := func(js []job) []job {
		by := map[string][]job{}
		var order []string
		for _, j := range js {
			if _, ok := by[j.spec.Project]; !ok {
				order = append(order, j.spec.Project)
			}
			by[j.spec.Project] = append(by[j.spec.Project], j)
		}
		var out []job
		for i := 0; len(out) < len(js); i++ {
			for _, pn := range order {
				if i < len(by[pn]) {
					out = append(out, by[pn][i])
				}
			}
		}
		return out
	}
	stOf := map[string]*projState{}
	for _, st := range sts {
		stOf[st.p.Name] = st
	}

	runPhase := func(name string, jobs []job) {
		jobs = interleave(jobs)
		in := make(chan job)
		out := make(chan outcome)
		var wg sync.WaitGroup
		for w := 0; w < nw; w++ {
			wg.Add(1)
			go func(w int) {
				defer wg.Done()
				for j := range in {
					st := stOf[j.spec.Project]
					o := outcome{job: j}
					o.res = r.execute(w, st.p, st.base.Steps[0].Tree, j.spec, false)
					o.execs = len(o.res.Steps)
					if o.res.Err == nil && (j.spec.Plain || !agreesWithBaseline(st, o.res)) {
						// reproducibility of the disagreement: same spec once more (the plain
						// generator is always run twice so that counts do not depend on its luck)
						rr := r.execute(w, st.p, st.base.Steps[0].Tree, j.spec, false)
						o.rerun = &rr
						o.execs += len(rr.Steps)
					}
					// keep memory flat: file contents equal to the baseline share its strings
					for _, rr := range []*runResult{&o.res, o.rerun} {
						if rr == nil {
							continue
						}
						for k := range rr.Steps {
							base := st.base.Steps[j.spec.firstStep()+k].Tree
							for f, content := range rr.Steps[k].Tree {
								if bc, ok := base[f]; ok && bc == content {
									rr.Steps[k].Tree[f] = bc
								}
							}
						}
					}
					out <- o
				}
			}(w)
		}
		go func() {
			for _, j := range jobs {
				if c.Expired() {
					mu.Lock()
					exhaustive = false
					mu.Unlock()
					break
				}
				in <- j
			}
			close(in)
			wg.Wait()
			close(out)
		}()
		done := 0
		var outs []outcome
		for o := range out {
			outs = append(outs, o)
			done++
		}
		if done < len(jobs) {
			incomplete = append(incomplete, fmt.Sprintf("phase %s: %d of %d histories executed before the budget expired", name, done, len(jobs)))
		}
		// evaluate in a fixed order (reports and samples must not depend on worker timing)
		sort.Slice(outs, func(i, j int) bool { return outs[i].job.spec.String() < outs[j].job.spec.String() })
		for _, o := range outs {
			st := stOf[o.job.spec.Project]
			if o.res.Err != nil {
				broken("history %s could not be executed: %v", o.job.spec, o.res.Err)
			}
			execs += o.execs
			compared += len(o.res.Steps)
			if o.rerun != nil {
				compared += len(o.rerun.Steps)
			}
			addState(o.job.spec, len(o.res.Steps))
			for k, s := range o.res.Steps {
				st.hashes[fmt.Sprintf("%d:%s", o.job.spec.firstStep()+k+1, treeHash(s.Tree))] = true
			}
			if o.rerun != nil {
				for k, s := range o.rerun.Steps {
					st.hashes[fmt.Sprintf("%d:%s", o.job.spec.firstStep()+k+1, treeHash(s.Tree))] = true
				}
			}
			evaluate(st, r, o)
			if o.job.spec.Plain && o.rerun != nil && o.rerun.Err == nil {
				evaluate(st, r, outcome{job: o.job, res: *o.rerun, rerun: &o.res})
			}
		}
		// samples: three histories spread over the phase
		step := len(outs) / 3
		if step == 0 {
			step = 1
		}
		for i := step / 2; i < len(outs); i += step {
			o := outs[i]
			c.Sample(map[string]any{"phase": o.job.phase, "history": o.job.spec, "deviated_sites": o.job.sites, "tree_sha256_per_step": stepHashes(o.res)})
		}
	}
	runPhase("contexts+single-site", phaseA)
	runPhase("multi-site", phaseB)
	runPhase("plain-generator", phaseC)

	// ---- evidence ---------------------------------------------------------------------
	execSites := map[string][]string{}
	distinct := map[string]any{}
	filesPer := map[string]int{}
	neverExecuted := map[string]bool{}
	for _, s := range r.stats.MapSites {
		neverExecuted[s] = true
	}
	for _, st := range sts {
		execSites[st.p.Name] = st.sites
		for _, s := range st.sites {
			delete(neverExecuted, s)
		}
		per := map[string]int{}
		for h := range st.hashes {
			per["step"+h[:strings.Index(h, ":")]]++
		}
		distinct[st.p.Name] = per
		gen := 0
		for f := range st.base.Steps[0].Tree {
			if _, pristine := st.p.Files[f]; !pristine {
				gen++
			}
		}
		filesPer[st.p.Name] = gen
	}
	c.Cov["states"] = len(states)
	c.Cov["transitions"] = execs
	c.Cov["traces_validated_against_impl"] = compared
	c.Cov["exhaustive"] = exhaustive && only == ""
	if len(incomplete) > 0 {
		c.Cov["incomplete"] = incomplete
	}
	c.Cov["executed_map_sites"] = execSites
	c.Cov["static_map_sites"] = len(r.stats.MapSites)
	c.Cov["static_map_sites_not_executed_by_any_project"] = sortedKeys(neverExecuted)
	c.Cov["uncontrolled_map_sites"] = r.stats.Unordered
	c.Cov["go_statements_in_generator"] = r.goStmts
	c.Cov["distinct_tree_hashes_per_project"] = distinct
	c.Cov["generated_files_per_project"] = filesPer
	pdesc := map[string]string{}
	for _, st := range sts {
		pdesc[st.p.Name] = st.p.About
	}
	c.Cov["projects"] = pdesc
	c.Cov["bounds"] = map[string]any{
		"deviation_bound":   map[bool]string{true: "every executed site reversed on its own; all sites reversed", false: "every executed site reversed / rotated on its own; every pair of executed sites reversed (projects multi, input, fed); all sites reversed"}[quick],
		"history_depth":     map[bool]string{true: "sorted baseline: 3 generator runs (T1, T2, T3); other histories 2 generator runs; single-site deviations share the prefix (sorted generation on the clean tree -> T1) and deviate the second run", false: "sorted baseline: 3 generator runs (T1, T2, T3); other histories 2 generator runs, the deviation applies to both; pairs share the sorted prefix and deviate the second run"}[quick],
		"start_directories": "config dir, sub-directory, nested sub-directory",
		"gomaxprocs":        []int{1, 16},
		"context_coverage":  map[bool]string{true: "sorted order at all 6 (start dir, GOMAXPROCS) contexts, all-sites-reversed at 2 of them", false: "sorted order and all-sites-reversed at all 6 (start dir, GOMAXPROCS) contexts"}[quick] + "; site deviations take the 6 contexts round-robin",
		"workers":           nw,
	}
	c.Assume = []string{
		"map iteration order is controlled only at `for range` statements over maps with orderable keys in the generator packages (api, codegen, codegen/config, codegen/templates, plugin/..., internal/...); the order answers explored per site are sorted, reversed and rotated-by-one, not all permutations",
		"text/template's own {{range}} over a map visits keys in sorted order (stdlib contract), so template-level map ranges are deterministic without instrumentation",
		"map iteration inside un-instrumented code (stdlib such as template.Templates(), gqlparser, golang.org/x/tools/imports, go/packages, yaml) is left to Go's per-process random order; every run here is a separate process, so such an order reaching the output shows up as disagreeing runs only probabilistically",
		"range-over-map sites whose key type cannot be ordered are listed as uncontrolled_map_sites; codegen/config/binder.go indexDefs (range over types.Info.Defs keyed by *ast.Ident, first definition per name wins) is one: it only admits package-scope objects, whose names are unique, so its order cannot reach the output on the tree as it is. Its order is NOT enumerated; the bound hand-written packages of the projects multi, input and fed re-declare every bound name in inner scopes (local types, vars, consts, parameters, results, methods, struct fields), so a filter that admits any of them shows up as disagreeing processes (each of the >= 45 processes per project draws its own order)",
		fmt.Sprintf("the generator packages contain %d `go` statements (counted in the instrumented source files), so scheduling enters only through GOMAXPROCS of the runtime and the external `go list` processes started by packages.Load, which are outside the instrumented surface", r.goStmts),
		"go.mod and go.sum are excluded from the compared trees: they are rewritten by the go command (-mod=mod, go mod tidy), and go.sum is re-copied by the harness before each step",
		"parallel workers use sibling directories <scratch>/wNN/<project> of identical length and depth; absolute paths are assumed not to be part of the property (output equality across worker directories is nevertheless checked)",
	}
	probe.Cleanup()
	c.Finish()
}

// spec0 is the sorted baseline history of a project.
func spec0(p *project) runSpec {
	return runSpec{Project: p.Name, StartDir: p.StartDirs[0], MaxProcs: 16, Steps: 3}
}

func stepHashes(r runResult) []string {
	var hs []string
	for _, s := range r.Steps {
		hs = append(hs, treeHash(s.Tree)[:16])
	}
	return hs
}

// agreesWithBaseline: O1 only (used by workers to decide whether to re-run for reproducibility).
func agreesWithBaseline(st *projState, res runResult) bool {
	for k, s := range res.Steps {
		if s.Exit != 0 || treeHash(s.Tree) != treeHash(st.base.Steps[res.Spec.firstStep()+k].Tree) {
			return false
		}
	}
	return true
}

func sameRun(a, b runResult) bool {
	if len(a.Steps) != len(b.Steps) {
		return false
	}
	for k := range a.Steps {
		if a.Steps[k].Exit != b.Steps[k].Exit || treeHash(a.Steps[k].Tree) != treeHash(b.Steps[k].Tree) {
			return false
		}
	}
	return true
}

// differingFiles lists files whose presence or content differs between two trees.
func differingFiles(a, b map[string]string) []string {
	var out []string
	for _, f := range sortedKeys(a) {
		if bc, ok := b[f]; !ok || bc != a[f] {
			out = append(out, f)
		}
	}
	for _, f := range sortedKeys(b) {
		if _, ok := a[f]; !ok {
			out = append(out, f)
		}
	}
	return out
}

func describeDiff(base, got map[string]string, f string) map[string]any {
	bc, bok := base[f]
	gc, gok := got[f]
	switch {
	case !bok:
		return map[string]any{"file": f, "change": "file exists only in this run"}
	case !gok:
		return map[string]any{"file": f, "change": "file missing in this run"}
	}
	minus, plus := lineDiff(bc, gc)
	return map[string]any{"file": f, "expected_lines": clip(minus, 12), "got_lines": clip(plus, 12)}
}

// checkIdempotent is O2 on one run: T2 == T1.
func checkIdempotent(st *projState, res runResult, spec runSpec) {
	// (a run that starts from the baseline's T1 is covered by O1: its result is compared with the
	// baseline's T2, and the baseline's own T1/T2 pair is checked here)
	if spec.FromT1 {
		return
	}
	for k := 1; k < len(res.Steps); k++ {
		if res.Steps[k-1].Exit == 0 && res.Steps[k].Exit == 0 {
			checkIdempotentPair(st, res.Steps[k-1].Tree, res.Steps[k].Tree, k+1, spec)
		}
	}
}

// checkIdempotentPair compares the trees before and after generation number `gen` of a history.
func checkIdempotentPair(st *projState, t1, t2 map[string]string, gen int, spec runSpec) {
	for _, f := range differingFiles(t1, t2) {
		if spec.Plain && st.orderDep[f] {
			continue // the two steps drew different random orders for a file already reported as order dependent
		}
		minus, plus := lineDiff(t1[f], t2[f])
		fp := common.Hash(minus, plus)
		sig := fmt.Sprintf("not-idempotent:%s:%s:%s", st.p.Name, f, fp)
		// one unlisted idempotence violation per file is enough (an unstable generator yields a
		// new fingerprint in every run); listed ones never hide a different fingerprint
		if !c.IsKnown(sig) {
			if st.o2Reported[f] {
				continue
			}
			st.o2Reported[f] = true
		}
		c.Report(sig, fmt.Sprintf("generation %d on the untouched output of generation %d changed %s (history %s)", gen, gen-1, f, spec),
			map[string]any{"spec": spec, "kind": "idempotence", "diff_T1_to_T2": describeDiff(t1, t2, f)})
	}
}

// evaluate applies O1 and O2 to one executed history and attributes disagreements.
func evaluate(st *projState, r *rig, o outcome) {
	spec := o.job.spec
	res := o.res
	// a generator failure where the baseline succeeded is a disagreement of its own
	for k, s := range res.Steps {
		if s.Exit != 0 {
			sig := fmt.Sprintf("generation-fails:%s:%s:step%d", devName(r, o.job), st.p.Name, spec.firstStep()+k+1)
			c.Report(sig, fmt.Sprintf("generator exit %d in history %s while the sorted baseline succeeds: %s", s.Exit, spec, firstLine(s.Output)),
				map[string]any{"spec": spec, "kind": "failure", "output": s.Output})
			return
		}
	}
	checkIdempotent(st, res, spec)
	reproducible := o.rerun != nil && o.rerun.Err == nil && sameRun(res, *o.rerun)
	for i, s := range res.Steps {
		k := spec.firstStep() + i
		base := st.base.Steps[k].Tree
		for _, f := range differingFiles(base, s.Tree) {
			content, present := s.Tree[f]
			vkey := fmt.Sprintf("%s|%s|%v", f, sha(content), present)
			var sig, what string
			switch {
			case !reproducible:
				if prev, ok := st.variants[vkey]; ok && st.orderDep[f] {
					sig = prev // one of the outputs an already reported order dependence produces
				} else if spec.Plain && st.orderDep[f] {
					sig = "" // random order on a file already reported as order dependent: nothing new to say
				} else {
					sig = fmt.Sprintf("unstable-output:%s:%s", st.p.Name, f)
				}
				what = fmt.Sprintf("two executions of the identical history %s produced different %s (uncontrolled nondeterminism)", spec, f)
			case spec.Plain:
				if prev, ok := st.variants[vkey]; ok {
					sig = prev
				} else {
					sig = fmt.Sprintf("plain-generator-differs:%s:%s", st.p.Name, f)
				}
				what = fmt.Sprintf("the un-instrumented generator repeatedly produces a %s that differs from the sorted-order baseline (history %s)", f, spec)
			case len(o.job.sites) == 0:
				sig = fmt.Sprintf("context-dependent:%s:%s:cwd=%s", st.p.Name, f, startDirClass(st.p, spec.StartDir))
				what = fmt.Sprintf("%s depends on the start directory / GOMAXPROCS (history %s)", f, spec)
			default:
				sig = ""
				if len(o.job.sites) > 1 || o.job.sites[0] == "*" {
					if prev, ok := st.variants[vkey]; ok {
						sig = prev // explained by a single-site deviation already reported
					}
				}
				if sig == "" {
					sig = fmt.Sprintf("order-dependent:%s:%s:%s", devName(r, o.job), st.p.Name, f)
				}
				what = fmt.Sprintf("%s depends on map iteration order at %s (history %s, step %d)", f, strings.Join(o.job.sites, " + "), spec, k+1)
				st.orderDep[f] = true
				if len(o.job.sites) == 1 && o.job.sites[0] != "*" {
					st.variants[vkey] = sig
				}
			}
			if sig == "" {
				continue
			}
			c.Report(sig, what, map[string]any{"spec": spec, "kind": "determinism", "step": k + 1, "reproducible": reproducible,
				"baseline": st.base.Spec, "diff_baseline_to_this_run": describeDiff(base, s.Tree, f)})
		}
	}
}

func startDirClass(p *project, d string) string {
	for i, sd := range p.StartDirs {
		if sd == d {
			return []string{"config-dir", "sub-dir", "nested-sub-dir"}[i]
		}
	}
	return d
}

// devName names the deviated sites by file and enclosing function (stable under line shifts).
func devName(r *rig, j job) string {
	if len(j.sites) == 0 {
		return "sorted"
	}
	var ns []string
	for _, s := range j.sites {
		if s == "*" {
			ns = append(ns, "all-sites")
		} else {
			ns = append(ns, r.siteName(s))
		}
	}
	return strings.Join(ns, "+")
}

func firstLine(s string) string {
	s = strings.TrimSpace(s)
	if i := strings.Index(s, "\n"); i >= 0 {
		s = s[:i]
	}
	if len(s) > 300 {
		s = s[:300]
	}
	return s
}

// replay re-runs the sorted baseline and the stored history and prints what the oracle sees.
func replay(r *rig, path string) {
	b, err := os.ReadFile(path)
	if err != nil {
		broken("replay: %v", err)
	}
	var rf struct {
		Signature string `json:"signature"`
		Replay    struct {
			Spec runSpec `json:"spec"`
		} `json:"replay"`
	}
	if err := json.Unmarshal(b, &rf); err != nil {
		broken("replay: %v", err)
	}
	spec := rf.Replay.Spec
	var p *project
	for _, q := range projects() {
		if q.Name == spec.Project {
			p = q
		}
	}
	if p == nil {
		broken("replay: unknown project %q", spec.Project)
	}
	fmt.Printf("replaying %s\n  signature: %s\n", spec, rf.Signature)
	baseSpec := runSpec{Project: p.Name, StartDir: p.StartDirs[0], MaxProcs: 16, Steps: 2}
	base := r.execute(0, p, nil, baseSpec, false)
	if base.Err != nil || len(base.Steps) != 2 {
		broken("replay: baseline failed: %v", base.Err)
	}
	got := r.execute(1, p, base.Steps[0].Tree, spec, false)
	if base.Err != nil || got.Err != nil {
		broken("replay: %v %v", base.Err, got.Err)
	}
	for i, s := range got.Steps {
		k := spec.firstStep() + i
		fmt.Printf("step %d: exit=%d tree=%s   baseline %s: exit=%d tree=%s\n", k+1, s.Exit, treeHash(s.Tree)[:16], baseSpec, base.Steps[k].Exit, treeHash(base.Steps[k].Tree)[:16])
		for _, f := range differingFiles(base.Steps[k].Tree, s.Tree) {
			d, _ := json.MarshalIndent(describeDiff(base.Steps[k].Tree, s.Tree, f), "   ", " ")
			fmt.Printf("  O1 (equals baseline) fails for %s:\n   %s\n", f, d)
		}
		if s.Exit != 0 {
			fmt.Printf("  generator output: %s\n", s.Output)
		}
	}
	if spec.FromT1 && len(got.Steps) == 1 {
		got.Steps = append([]stepResult{base.Steps[0]}, got.Steps...)
	}
	if len(got.Steps) == 2 {
		fs := differingFiles(got.Steps[0].Tree, got.Steps[1].Tree)
		if len(fs) == 0 {
			fmt.Println("O2 (T2 == T1) holds")
		}
		for _, f := range fs {
			d, _ := json.MarshalIndent(describeDiff(got.Steps[0].Tree, got.Steps[1].Tree, f), "   ", " ")
			fmt.Printf("  O2 (T2 == T1) fails for %s:\n   %s\n", f, d)
		}
	}
}

package main

import (
	"os"
	"path/filepath"
	"sort"

	"verif/common"
	"verif/probe"
)

// project is one probe project the generator is run on. The pristine tree is Files (+ go.mod /
// go.sum written by probe.WriteProject); StartDirs are the directories (relative to the config
// dir) the generator process is started from: the config dir, a sub-directory, a nested one.
type project struct {
	Name      string
	About     string
	Files     map[string]string
	Stub      string // stubgen output (exec probe only)
	StartDirs [3]string
	Quick     bool // part of the quick tier
}

func readTree(root string) map[string]string {
	files := map[string]string{}
	filepath.Walk(root, func(p string, info os.FileInfo, err error) error {
		if err != nil || info.IsDir() {
			return nil
		}
		b, _ := os.ReadFile(p)
		rel, _ := filepath.Rel(root, p)
		files[rel] = string(b)
		return nil
	})
	if len(files) == 0 {
		broken("project tree %s is empty", root)
	}
	return files
}

func projects() []*project {
	td := filepath.Join(common.Root, "props", "c18", "testdata")
	return []*project{
		{Name: "multi", Quick: true,
			About:     "follow-schema exec + follow-schema resolvers, 7 schema files in 4 directories, naming.graphql with the identifier classes (initialism prefix APIKey/HTTPEndpoint/URLInfo, inner initialism OAuthToken/userID/xAPIKey, underscores leading/embedded/trailing, lower-case start, keyword-like Type/Func/type/func/range/var) each with resolver fields, extend type across files, directives declared in 4 files, generated models + autobind of 2 hand-written packages AND of the package that receives models_gen.go (probe/graph/model, with a hand-written hand.go next to the generated file), models/directives config",
			Files:     readTree(filepath.Join(td, "multi")),
			StartDirs: [3]string{".", "schema/shop", "schema/shop/extra"}},
		{Name: "input", Quick: true,
			About:     "input-heavy schema (15 inputs, scalar/list/object-literal defaults, input directives, @oneOf, omittable, extraFields, enum_values, custom scalar), single-file exec, single-file resolver layout, models in their own package; non-default options struct_fields_always_pointers:false, omit_slice_element_pointers, resolvers_always_return_pointers:false, nullable_input_omittable, enable_model_json_omitempty_tag:false, enable_model_json_omitzero_tag:true on object types with mutual and self references (non-null, nullable, list; 2- and 3-cycles); the same naming.graphql identifier classes with resolver fields",
			Files:     readTree(filepath.Join(td, "input")),
			StartDirs: [3]string{".", "ext", "graph/model"}},
		{Name: "fed", Quick: true,
			About:     "federation v2 with explicit_requires: single/multi/nested keys, multi resolvers, @requires on generated and hand-bound entities (two model packages), entity interface, follow-schema resolvers; object / enum / input type names that collide after Go-name conversion (user_profile~UserProfile, HTTP_status~HttpStatus, sort_order~SortOrder, page_args~PageArgs) each referenced from fields of other types; the bound hand-written packages reuse bound names in inner scopes (function-local types/vars/consts, parameters, results, method and struct field names); object types MUTATION / QUERY next to the roots Mutation / Query (no schema{} block)",
			Files:     readTree(filepath.Join(td, "fed")),
			StartDirs: [3]string{".", "graph", "graph/model"}},
		{Name: "samebase", Quick: true,
			About:     "follow-schema exec where two schema files in different directories share the base name common.graphql and contribute only interfaces/unions/enums/directives; explicit schema{} block plus object types MUTATION / QUERY that differ from the root types only in case",
			Files:     readTree(filepath.Join(td, "samebase")),
			StartDirs: [3]string{".", "schema", "schema/core"}},
		{Name: "fedcomp", Quick: false,
			About:     "federation v2 with computed_requires (schema mutated for @requires fields), single and multi entity resolvers",
			Files:     readTree(filepath.Join(td, "fedcomp")),
			StartDirs: [3]string{".", "graph", "graph/model"}},
		{Name: "exec", Quick: false,
			About:     "/verif/probes/exec (single-file exec, generated models, stubgen plugin)",
			Files:     probe.ReadProbe("exec"),
			Stub:      "graph/stub.go",
			StartDirs: [3]string{".", "graph", "graph/deep/er"}},
	}
}

func sortedKeys[V any](m map[string]V) []string {
	ks := make([]string, 0, len(m))
	for k := range m {
		ks = append(ks, k)
	}
	sort.Strings(ks)
	return ks
}

package main

import (
	"crypto/sha256"
	"encoding/hex"
	"encoding/json"
	"fmt"
	"go/ast"
	"go/parser"
	"go/token"
	"os"
	"os/exec"
	"path/filepath"
	"sort"
	"strings"

	"verif/common"
	"verif/probe"
)

// generatorPkgs are the packages that make up `gqlgen generate`; they get the map-range rule.
var generatorPkgs = []string{
	"github.com/99designs/gqlgen/api",
	"github.com/99designs/gqlgen/codegen",
	"github.com/99designs/gqlgen/codegen/config",
	"github.com/99designs/gqlgen/codegen/templates",
	"github.com/99designs/gqlgen/plugin/...",
	"github.com/99designs/gqlgen/internal/...",
}

type instrStats struct {
	Files     int      `json:"files"`
	MapSites  []string `json:"map_sites"`
	Unordered []string `json:"unordered_map_sites"`
}

type rig struct {
	instrDriver string // gendriver built from the map-range instrumented generator
	plainDriver string // gendriver built from the tree as it is
	stats       instrStats
	goStmts     int               // `go` statements in the instrumented source files (counted here)
	siteFunc    map[string]string // site -> "codegen/generate.go:addInterfaces"
}

// buildRig instruments the generator packages of the tree under test with the map-range rule
// only and builds cmd/gendriver through the resulting overlay; it also builds the plain driver.
func buildRig() *rig {
	r := &rig{siteFunc: map[string]string{}}
	plainErr := make(chan error, 1)
	go func() {
		p, err := probe.Driver()
		r.plainDriver = p
		plainErr <- err
	}()
	vi, err := probe.Vinstr()
	if err != nil {
		broken("%v", err)
	}
	modflag := os.Getenv("VERIF_MODFLAG")
	out := filepath.Join(probe.ScratchRoot(), "instr")
	statsFile := filepath.Join(out, "stats.json")
	env := append(probe.GoEnv(), strings.TrimSpace("GOFLAGS=-mod=mod "+modflag))
	args := append([]string{"-dir", common.Root, "-out", out, "-nosync", "-maprange", "-stats", statsFile}, generatorPkgs...)
	if o, err := probe.Run(common.Root, env, vi, args...); err != nil {
		broken("vinstr on the generator packages failed: %v\n%s", err, o)
	}
	b, err := os.ReadFile(statsFile)
	if err != nil || json.Unmarshal(b, &r.stats) != nil {
		broken("cannot read vinstr stats: %v", err)
	}
	if len(r.stats.MapSites) == 0 {
		broken("vinstr found no range-over-map site in the generator packages")
	}
	r.instrDriver = filepath.Join(probe.ScratchRoot(), "gendriver-instr")
	bargs := []string{"build"}
	if modflag != "" {
		bargs = append(bargs, modflag)
	}
	bargs = append(bargs, "-overlay", filepath.Join(out, "overlay.json"), "-o", r.instrDriver, "./cmd/gendriver")
	if o, err := probe.Run(common.Root, env, "go", bargs...); err != nil {
		broken("building the instrumented generator failed: %v\n%s", err, o)
	}
	// the instrumented surface: count `go` statements and name the function around every site
	var ov struct{ Replace map[string]string }
	ob, _ := os.ReadFile(filepath.Join(out, "overlay.json"))
	if json.Unmarshal(ob, &ov) != nil || len(ov.Replace) == 0 {
		broken("cannot read overlay.json")
	}
	type fn struct {
		name       string
		start, end int
	}
	byFile := map[string][]fn{} // "<dir base>/<file>" is not unique enough: key by full path
	fset := token.NewFileSet()
	for orig := range ov.Replace {
		f, err := parser.ParseFile(fset, orig, nil, 0)
		if err != nil {
			broken("parse %s: %v", orig, err)
		}
		ast.Inspect(f, func(n ast.Node) bool {
			if _, ok := n.(*ast.GoStmt); ok {
				r.goStmts++
			}
			return true
		})
		for _, d := range f.Decls {
			if fd, ok := d.(*ast.FuncDecl); ok {
				name := fd.Name.Name
				if fd.Recv != nil && len(fd.Recv.List) == 1 {
					name = recvName(fd.Recv.List[0].Type) + "." + name
				}
				byFile[orig] = append(byFile[orig], fn{name, fset.Position(fd.Pos()).Line, fset.Position(fd.End()).Line})
			}
		}
	}
	const mod = "github.com/99designs/gqlgen/"
	lineOf := map[string]int{}
	for _, site := range append(append([]string{}, r.stats.MapSites...), r.stats.Unordered...) {
		rel := strings.TrimPrefix(site, mod) // codegen/generate.go:176
		i := strings.LastIndex(rel, ":")
		var line int
		fmt.Sscanf(rel[i+1:], "%d", &line)
		path := filepath.Join(common.RepoDir(), rel[:i])
		name := "?"
		for _, f := range byFile[path] {
			if f.start <= line && line <= f.end {
				name = f.name
			}
		}
		r.siteFunc[site] = rel[:i] + ":" + name
		lineOf[site] = line
	}
	// ordinal of the site among the map ranges of its function (by line)
	byFn := map[string][]string{}
	for site, fn := range r.siteFunc {
		byFn[fn] = append(byFn[fn], site)
	}
	for fn, sites := range byFn {
		sort.Slice(sites, func(i, j int) bool { return lineOf[sites[i]] < lineOf[sites[j]] })
		for k, site := range sites {
			r.siteFunc[site] = fmt.Sprintf("%s#%d", fn, k+1)
		}
	}
	if err := <-plainErr; err != nil {
		broken("%v", err)
	}
	return r
}

// siteName names a site as <file>:<enclosing function>#<k-th map range in it>.
func (r *rig) siteName(site string) string {
	if n, ok := r.siteFunc[site]; ok {
		return n
	}
	return site
}

func recvName(e ast.Expr) string {
	switch t := e.(type) {
	case *ast.StarExpr:
		return recvName(t.X)
	case *ast.Ident:
		return t.Name
	case *ast.IndexExpr:
		return recvName(t.X)
	}
	return "?"
}

// ---------------------------------------------------------------------------------------

// runSpec describes one history executed on the real generator: restore the pristine tree (or
// the tree T1 of the sorted baseline when FromT1), then run the generator Steps times.
type runSpec struct {
	Project  string `json:"project"`
	MapOrder string `json:"map_order"` // VERIF_MAPORDER: "" = sorted everywhere
	StartDir string `json:"start_dir"` // cwd of the generator process, relative to the config dir
	MaxProcs int    `json:"gomaxprocs"`
	Steps    int    `json:"steps"`
	FromT1   bool   `json:"from_T1,omitempty"`      // history prefix "generate with sorted order on the clean tree -> T1" is shared: start from the baseline's T1
	Plain    bool   `json:"plain_driver,omitempty"` // un-instrumented generator (Go's own random map order)
}

// firstStep is the 0-based history position of the first generator run this spec executes.
func (s runSpec) firstStep() int {
	if s.FromT1 {
		return 1
	}
	return 0
}

func (s runSpec) String() string {
	o := s.MapOrder
	if o == "" {
		o = "sorted"
	}
	d := "instr"
	if s.Plain {
		d = "plain"
	}
	from := "clean"
	if s.FromT1 {
		from = "T1"
	}
	return fmt.Sprintf("%s[%s cwd=%s GOMAXPROCS=%d from=%s steps=%d %s]", s.Project, o, s.StartDir, s.MaxProcs, from, s.Steps, d)
}

type stepResult struct {
	Exit   int
	Output string
	Tree   map[string]string // relative path -> file content (everything except go.mod/go.sum)
}

type runResult struct {
	Spec  runSpec
	Steps []stepResult
	Sites []string // executed map sites (only when requested)
	Err   error    // machinery failure
}

// ignored files: rewritten by the go command (GOFLAGS=-mod=mod of the harness environment /
// `go mod tidy`), not by gqlgen.
func ignoredFile(rel string) bool { return rel == "go.mod" || rel == "go.sum" }

func readAll(dir string) map[string]string {
	out := map[string]string{}
	filepath.Walk(dir, func(p string, info os.FileInfo, err error) error {
		if err != nil || info.IsDir() {
			return nil
		}
		rel, _ := filepath.Rel(dir, p)
		if ignoredFile(rel) {
			return nil
		}
		b, _ := os.ReadFile(p)
		out[rel] = string(b)
		return nil
	})
	return out
}

func sha(s string) string {
	h := sha256.Sum256([]byte(s))
	return hex.EncodeToString(h[:])
}

// treeHash is the SHA-256 over (path, SHA-256(content)) of every file of a tree.
func treeHash(t map[string]string) string {
	var sb strings.Builder
	for _, k := range sortedKeys(t) {
		sb.WriteString(k + "\x00" + sha(t[k]) + "\n")
	}
	return sha(sb.String())
}

// execute runs one history in the worker's own directory <scratch>/wNN/<project>. The same
// worker directory is reused (removed and rewritten) so absolute paths do not vary per run.
func (r *rig) execute(worker int, p *project, t1 map[string]string, s runSpec, recordSites bool) runResult {
	res := runResult{Spec: s}
	for attempt := 0; attempt < 3; attempt++ {
		res = r.executeOnce(worker, p, t1, s, recordSites)
		if res.Err == nil {
			return res
		}
	}
	return res
}

func (r *rig) executeOnce(worker int, p *project, t1 map[string]string, s runSpec, recordSites bool) runResult {
	res := runResult{Spec: s}
	name := fmt.Sprintf("w%02d/%s", worker, p.Name)
	dir := filepath.Join(probe.ScratchRoot(), name)
	os.RemoveAll(dir)
	files := p.Files
	if s.FromT1 {
		if t1 == nil {
			res.Err = fmt.Errorf("no T1 tree for %s", s)
			return res
		}
		files = t1 // T1 contains the pristine files too
	}
	if _, err := probe.WriteProject(probe.Spec{Name: name, Files: files}); err != nil {
		res.Err = err
		return res
	}
	defer os.RemoveAll(dir)
	for _, sd := range p.StartDirs {
		os.MkdirAll(filepath.Join(dir, sd), 0o755)
	}
	sitesFile := filepath.Join(probe.ScratchRoot(), fmt.Sprintf("w%02d", worker), "sites-"+p.Name+".txt")
	os.Remove(sitesFile)
	drv := r.instrDriver
	if s.Plain {
		drv = r.plainDriver
	}
	env := append(probe.GoEnv(), fmt.Sprintf("GOMAXPROCS=%d", s.MaxProcs))
	if s.MapOrder != "" {
		env = append(env, "VERIF_MAPORDER="+s.MapOrder)
	}
	if recordSites {
		env = append(env, "VERIF_MAPSITES_OUT="+sitesFile)
	}
	var args []string
	if p.Stub != "" {
		args = []string{"-stub", p.Stub}
	}
	for step := 0; step < s.Steps; step++ {
		probe.RefreshSum(dir)
		cmd := exec.Command(drv, args...)
		cmd.Dir = filepath.Join(dir, s.StartDir)
		cmd.Env = env
		out, err := cmd.CombinedOutput()
		st := stepResult{Output: string(out)}
		if err != nil {
			ee, ok := err.(*exec.ExitError)
			if !ok {
				res.Err = fmt.Errorf("cannot run driver: %v", err)
				return res
			}
			st.Exit = ee.ExitCode()
		}
		if _, e := os.Stat(filepath.Join(dir, "gqlgen.yml")); e != nil {
			res.Err = fmt.Errorf("scratch project %s was damaged from outside", dir)
			return res
		}
		st.Tree = readAll(dir)
		res.Steps = append(res.Steps, st)
		if st.Exit != 0 {
			break
		}
	}
	if recordSites {
		b, _ := os.ReadFile(sitesFile)
		seen := map[string]bool{}
		for _, l := range strings.Split(string(b), "\n") {
			if l != "" && !seen[l] {
				seen[l] = true
				res.Sites = append(res.Sites, l)
			}
		}
		sort.Strings(res.Sites)
		os.Remove(sitesFile)
	}
	return res
}

// lineDiff returns the lines of a and b that remain after removing the common prefix and the
// common suffix (enough to describe and fingerprint a change; not a minimal diff).
func lineDiff(a, b string) (minus, plus []string) {
	al, bl := strings.Split(a, "\n"), strings.Split(b, "\n")
	i := 0
	for i < len(al) && i < len(bl) && al[i] == bl[i] {
		i++
	}
	j := 0
	for j < len(al)-i && j < len(bl)-i && al[len(al)-1-j] == bl[len(bl)-1-j] {
		j++
	}
	return al[i : len(al)-j], bl[i : len(bl)-j]
}

func clip(ls []string, n int) []string {
	if len(ls) > n {
		return append(append([]string{}, ls[:n]...), fmt.Sprintf("... (%d more lines)", len(ls)-n))
	}
	return ls
}

// broken removes the scratch directory before reporting broken machinery (exit 2).
func broken(format string, a ...any) {
	probe.Cleanup()
	common.Broken(format, a...)
}

// Package probe generates probe servers from the tree under test at check time:
// a scratch Go module under $VERIF_SCRATCH, /repo's generator run through cmd/gendriver
// (optionally with the stubgen plugin), then `go build` of harness packages inside it.
package probe

import (
	"bytes"
	"fmt"
	"os"
	"os/exec"
	"path/filepath"
	"strings"
	"sync"

	"verif/common"
)

// Scratch is the per-process scratch root; removed by Cleanup.
var (
	scratchOnce sync.Once
	scratchDir  string
	driverOnce  sync.Once
	driverPath  string
	driverErr   error
)

func ScratchRoot() string {
	scratchOnce.Do(func() {
		base := os.Getenv("VERIF_SCRATCH")
		if base == "" {
			base = "/var/tmp"
		}
		d, err := os.MkdirTemp(base, fmt.Sprintf("verif-%d-", os.Getpid()))
		if err != nil {
			common.Broken("cannot create scratch dir: %v", err)
		}
		scratchDir = d
	})
	return scratchDir
}

// Cleanup removes everything this process created under the scratch root.
func Cleanup() {
	if scratchDir != "" {
		os.RemoveAll(scratchDir)
	}
}

// GoEnv returns the environment for go commands run inside scratch modules.
func GoEnv() []string {
	env := os.Environ()
	out := env[:0:0]
	for _, e := range env {
		if strings.HasPrefix(e, "GOFLAGS=") {
			continue
		}
		out = append(out, e)
	}
	// GODEBUG=goindex=0: the module-cache package index ignores -overlay, so new imports
	// added to instrumented module-cache files (x/sync/semaphore, gorilla) would be missed.
	return append(out, "GOFLAGS=-mod=mod", "GOPROXY=off", "GOTOOLCHAIN=local", "GODEBUG=goindex=0")
}

// Run runs a command in dir and returns combined output.
func Run(dir string, env []string, name string, args ...string) (string, error) {
	cmd := exec.Command(name, args...)
	cmd.Dir = dir
	if env != nil {
		cmd.Env = env
	}
	var buf bytes.Buffer
	cmd.Stdout = &buf
	cmd.Stderr = &buf
	err := cmd.Run()
	return buf.String(), err
}

// Driver builds cmd/gendriver from the tree under test (once per process).
func Driver() (string, error) {
	driverOnce.Do(func() {
		driverPath = filepath.Join(ScratchRoot(), "gendriver")
		args := []string{"build"}
		if mf := os.Getenv("VERIF_MODFLAG"); mf != "" {
			args = append(args, mf)
		}
		args = append(args, "-o", driverPath, "./cmd/gendriver")
		out, err := Run(common.Root, nil, "go", args...)
		if err != nil {
			driverErr = fmt.Errorf("building gendriver: %v\n%s", err, out)
		}
	})
	return driverPath, driverErr
}

// Spec describes one probe project.
type Spec struct {
	Name   string            // directory name under the scratch root
	Files  map[string]string // relative path -> content (schema files, gqlgen.yml, Go sources)
	Stub   string            // if non-empty, stubgen output path (e.g. "graph/stub.go")
	Module string            // module name, default "probe"
}

// GenResult is the outcome of one generator run.
type GenResult struct {
	Dir      string
	Output   string
	ExitCode int // 0 ok, 3 generate error, 4 generate panic, other: driver failure
}

// WriteProject creates the scratch module for spec (without running the generator).
func WriteProject(spec Spec) (string, error) {
	dir := filepath.Join(ScratchRoot(), spec.Name)
	if err := os.MkdirAll(dir, 0o755); err != nil {
		return "", err
	}
	mod := spec.Module
	if mod == "" {
		mod = "probe"
	}
	gomod := fmt.Sprintf("module %s\n\ngo 1.23.8\n\nrequire github.com/99designs/gqlgen v0.0.0\nrequire verif v0.0.0\n\nreplace github.com/99designs/gqlgen => %s\nreplace verif => %s\n", mod, common.RepoDir(), common.Root)
	if _, ok := spec.Files["go.mod"]; !ok {
		if err := os.WriteFile(filepath.Join(dir, "go.mod"), []byte(gomod), 0o644); err != nil {
			return "", err
		}
	}
	sum, err := os.ReadFile(filepath.Join(common.RepoDir(), "go.sum"))
	if err == nil {
		os.WriteFile(filepath.Join(dir, "go.sum"), sum, 0o644)
	}
	for rel, content := range spec.Files {
		p := filepath.Join(dir, rel)
		if err := os.MkdirAll(filepath.Dir(p), 0o755); err != nil {
			return "", err
		}
		if err := os.WriteFile(p, []byte(content), 0o644); err != nil {
			return "", err
		}
	}
	return dir, nil
}

// Generate writes the project and runs the generator in it (cwd = project dir, or subdir).
func Generate(spec Spec) (GenResult, error) {
	dir, err := WriteProject(spec)
	if err != nil {
		return GenResult{}, err
	}
	return RunGenerator(dir, dir, spec.Stub)
}

// RunGenerator runs the generator with cwd=cwd for the project at dir.
func RunGenerator(dir, cwd, stub string) (GenResult, error) {
	drv, err := Driver()
	if err != nil {
		return GenResult{}, err
	}
	RefreshSum(dir)
	var args []string
	if stub != "" {
		os.MkdirAll(filepath.Dir(filepath.Join(cwd, stub)), 0o755)
		args = append(args, "-stub", stub)
	}
	out, err := Run(cwd, GoEnv(), drv, args...)
	res := GenResult{Dir: dir, Output: out}
	if err != nil {
		if ee, ok := err.(*exec.ExitError); ok {
			res.ExitCode = ee.ExitCode()
			return res, nil
		}
		return res, err
	}
	return res, nil
}

// RefreshSum re-copies the tree's go.sum into the scratch module: go commands run with
// -mod=mod rewrite go.sum down to what the module currently needs, which drops sums that
// a later step needs (x/sync once generated code or instrumentation imports it).
func RefreshSum(dir string) {
	for d := dir; d != "/" && d != "."; d = filepath.Dir(d) {
		if _, err := os.Stat(filepath.Join(d, "go.mod")); err == nil {
			if sum, err := os.ReadFile(filepath.Join(common.RepoDir(), "go.sum")); err == nil {
				os.WriteFile(filepath.Join(d, "go.sum"), sum, 0o644)
			}
			return
		}
	}
}

// GoBuild runs `go build` in a scratch module; extra are extra args (e.g. -overlay, -o, pkgs).
func GoBuild(dir string, extra ...string) (string, error) {
	RefreshSum(dir)
	return Run(dir, GoEnv(), "go", append([]string{"build"}, extra...)...)
}

// ReadProbe loads /verif/probes/<name>/* as a file map.
func ReadProbe(name string) map[string]string {
	files := map[string]string{}
	root := filepath.Join(common.Root, "probes", name)
	filepath.Walk(root, func(p string, info os.FileInfo, err error) error {
		if err != nil || info.IsDir() {
			return nil
		}
		b, _ := os.ReadFile(p)
		rel, _ := filepath.Rel(root, p)
		files[rel] = string(b)
		return nil
	})
	if len(files) == 0 {
		common.Broken("probe %s not found", name)
	}
	return files
}

var (
	vinstrOnce sync.Once
	vinstrPath string
	vinstrErr  error
)

// Vinstr builds cmd/vinstr once per process.
func Vinstr() (string, error) {
	vinstrOnce.Do(func() {
		vinstrPath = filepath.Join(ScratchRoot(), "vinstr")
		out, err := Run(common.Root, nil, "go", "build", "-o", vinstrPath, "./cmd/vinstr")
		if err != nil {
			vinstrErr = fmt.Errorf("building vinstr: %v\n%s", err, out)
		}
	})
	return vinstrPath, vinstrErr
}

// RuntimePkgs are the gqlgen runtime packages instrumented for scheduler-based checks.
var RuntimePkgs = []string{
	"github.com/99designs/gqlgen/graphql",
	"github.com/99designs/gqlgen/graphql/executor",
	"github.com/99designs/gqlgen/graphql/handler",
	"github.com/99designs/gqlgen/graphql/handler/transport",
	"github.com/99designs/gqlgen/graphql/handler/extension",
	"github.com/99designs/gqlgen/graphql/handler/lru",
	"golang.org/x/sync/semaphore",
	// (not used by the pinned tree; a change that starts using it must not put unmanaged
	// goroutines under the scheduler)
	"golang.org/x/sync/errgroup",
}

// BuildInstrumented instruments pkgs (loaded from the scratch module at dir), then builds
// mainPkg of that module with the overlay into out.
func BuildInstrumented(dir string, vinstrArgs []string, mainPkg, out string) error {
	vi, err := Vinstr()
	if err != nil {
		return err
	}
	idir := filepath.Join(dir, ".instr")
	os.RemoveAll(idir)
	RefreshSum(dir)
	args := append([]string{"-dir", dir, "-out", idir, "-stats", filepath.Join(idir, "stats.json")}, vinstrArgs...)
	if o, err := Run(dir, GoEnv(), vi, args...); err != nil {
		return fmt.Errorf("vinstr: %v\n%s", err, o)
	}
	if o, err := GoBuild(dir, "-overlay", filepath.Join(idir, "overlay.json"), "-o", out, mainPkg); err != nil {
		return fmt.Errorf("instrumented build: %v\n%s", err, o)
	}
	return nil
}

// Package handschema is a small hand-written graphql.ExecutableSchema used by the
// transport-level checks (DESIGN.md section 3.6). It interprets root fields of a fixed
// schema, logs every resolver/hook event, and lets the harness script subscriptions.
//
// It deliberately uses only sync-free constructs (a plain slice log guarded by the fact
// that harnesses either run single-threaded or under the controlled scheduler, where
// exactly one thread runs at a time). For free-running use set Log.Locked = true.
package handschema

import (
	"bytes"
	"context"
	"encoding/json"
	"fmt"
	"io"
	"sort"
	"strconv"
	"strings"
	gosync "sync"

	"github.com/vektah/gqlparser/v2"
	"github.com/vektah/gqlparser/v2/ast"
	"github.com/vektah/gqlparser/v2/gqlerror"

	"github.com/99designs/gqlgen/graphql"
	"github.com/99designs/gqlgen/graphql/handler/transport"
)

const SDL = `
type Query {
  a: String!
  b(x: Int): Int
  big: String!
  name: String!
  echo(s: String): String
  fail: String
  boom: String
  ctxinfo: String!
}
type Mutation {
  m(v: Int): Int!
  m2: String!
}
type Subscription {
  s(n: Int): Int!
  s2: String!
}
`

// Log is the oracle-visible event log.
type Log struct {
	mu     gosync.Mutex
	Events []string
}

func (l *Log) Add(format string, a ...any) {
	l.mu.Lock()
	l.Events = append(l.Events, fmt.Sprintf(format, a...))
	l.mu.Unlock()
}

func (l *Log) Snapshot() []string {
	l.mu.Lock()
	defer l.mu.Unlock()
	return append([]string(nil), l.Events...)
}

func (l *Log) Reset() {
	l.mu.Lock()
	l.Events = nil
	l.mu.Unlock()
}

// Count returns the number of events with the given prefix.
func (l *Log) Count(prefix string) int {
	l.mu.Lock()
	defer l.mu.Unlock()
	n := 0
	for _, e := range l.Events {
		if strings.HasPrefix(e, prefix) {
			n++
		}
	}
	return n
}

// SubStep is what a scripted subscription does next.
type SubStep struct {
	Kind string // "emit", "end", "error", "panic", "late-error" (transport.AddSubscriptionError, then end)
	Val  int
	Raw  string // when non-empty: raw JSON used as the field value instead of Val
}

// SubSource yields the next step of a subscription; called once per response-function call.
// It may block (through harness-controlled means) before answering.
type SubSource func(ctx context.Context, field string, args map[string]any, call int) SubStep

type Schema struct {
	Log          *Log
	Sub          SubSource
	ComplexityFn func(typeName, field string, child int, args map[string]any) (int, bool)
	// Hook, when set, is invoked at the start of every resolver (harness yield points, faults).
	Hook func(ctx context.Context, object, field string, args map[string]any)
	// Defer: when >0 a query response function yields that many extra incremental payloads.
	Incremental []string    // raw JSON data for incremental payloads (each delivered with hasNext bookkeeping)
	IncHook     func(k int) // called before the k-th incremental payload is produced
	// IncPaths, when set, gives the path of the k-th incremental payload (default ["a"])
	IncPaths [][]string

	schema *ast.Schema
}

func New(log *Log) *Schema {
	if log == nil {
		log = &Log{}
	}
	return &Schema{Log: log, schema: gqlparser.MustLoadSchema(&ast.Source{Name: "hand.graphql", Input: SDL})}
}

var _ graphql.ExecutableSchema = (*Schema)(nil)

type logKey struct{}

// WithLog makes events of operations run under ctx go to l instead of the schema's log
// (several concurrent requests on one executor, each with its own log).
func WithLog(ctx context.Context, l *Log) context.Context { return context.WithValue(ctx, logKey{}, l) }

// LogOf returns the log events under ctx go to: the one set by WithLog, else def.
func LogOf(ctx context.Context, def *Log) *Log {
	if l, ok := ctx.Value(logKey{}).(*Log); ok && l != nil {
		return l
	}
	return def
}

func (s *Schema) log(ctx context.Context) *Log {
	if l, ok := ctx.Value(logKey{}).(*Log); ok && l != nil {
		return l
	}
	return s.Log
}

func (s *Schema) Schema() *ast.Schema { return s.schema }

func (s *Schema) Complexity(ctx context.Context, typeName, field string, child int, args map[string]any) (int, bool) {
	if s.ComplexityFn != nil {
		return s.ComplexityFn(typeName, field, child, args)
	}
	return 0, false
}

func fmtArgs(args map[string]any) string {
	if len(args) == 0 {
		return ""
	}
	keys := make([]string, 0, len(args))
	for k := range args {
		keys = append(keys, k)
	}
	sort.Strings(keys)
	var b strings.Builder
	for i, k := range keys {
		if i > 0 {
			b.WriteByte(',')
		}
		j, _ := json.Marshal(args[k])
		fmt.Fprintf(&b, "%s:%s", k, j)
	}
	return b.String()
}

func toInt(v any) (int64, bool) {
	switch x := v.(type) {
	case int:
		return int64(x), true
	case int64:
		return x, true
	case int32:
		return int64(x), true
	case float64:
		return int64(x), true
	case json.Number:
		i, err := x.Int64()
		return i, err == nil
	case string:
		i, err := strconv.ParseInt(x, 10, 64)
		return i, err == nil
	}
	return 0, false
}

// resolve computes the value of one root field; returns raw JSON or an error.
func (s *Schema) resolve(ctx context.Context, object string, f graphql.CollectedField, args map[string]any) (string, error) {
	switch object + "." + f.Name {
	case "Query.a":
		return `"A"`, nil
	case "Query.b":
		if x, ok := toInt(args["x"]); ok {
			return strconv.FormatInt(x*2, 10), nil
		}
		return "null", nil
	case "Query.big":
		return `"` + strings.Repeat("x", 2000) + `"`, nil
	case "Query.name":
		return `"N"`, nil
	case "Query.echo":
		if v, ok := args["s"].(string); ok {
			b, _ := json.Marshal(v)
			return string(b), nil
		}
		return "null", nil
	case "Query.ctxinfo":
		// everything request-specific that the operation context carries: a leak of another
		// request's operation name, variables, extensions or headers shows up in the body
		oc := graphql.GetOperationContext(ctx)
		info := map[string]any{"operationName": oc.OperationName, "variables": oc.Variables, "extensions": oc.Extensions,
			"header": oc.Headers.Values("X-Verif"), "rawQuery": oc.RawQuery}
		b, _ := json.Marshal(info)
		q, _ := json.Marshal(string(b))
		return string(q), nil
	case "Query.fail":
		return "null", fmt.Errorf("fail resolver error")
	case "Query.boom":
		panic("boom resolver panic")
	case "Mutation.m":
		if x, ok := toInt(args["v"]); ok {
			return strconv.FormatInt(x, 10), nil
		}
		return "0", nil
	case "Mutation.m2":
		return `"M2"`, nil
	}
	return "null", fmt.Errorf("unknown field %s.%s", object, f.Name)
}

// execRoot runs every collected root field through the real middleware chain.
func (s *Schema) execRoot(ctx context.Context, object string) *graphql.Response {
	opCtx := graphql.GetOperationContext(ctx)
	fields := graphql.CollectFields(opCtx, opCtx.Operation.SelectionSet, []string{object})
	var buf bytes.Buffer
	buf.WriteByte('{')
	invalid := false
	for i, f := range fields {
		if i > 0 {
			buf.WriteByte(',')
		}
		kb, _ := json.Marshal(f.Alias)
		buf.Write(kb)
		buf.WriteByte(':')
		if f.Name == "__typename" {
			fmt.Fprintf(&buf, "%q", object)
			continue
		}
		def := s.schema.Types[object].Fields.ForName(f.Name)
		if def == nil {
			// only reachable when validation let an unknown field through (generated code
			// panics with "unknown field" here)
			s.log(ctx).Add("resolver:%s.%s(UNKNOWN-FIELD)", object, f.Name)
			buf.WriteString("null")
			continue
		}
		fc := &graphql.FieldContext{Object: object, Field: f, IsResolver: true, IsMethod: true}
		fctx := graphql.WithFieldContext(ctx, fc)
		args := f.ArgumentMap(opCtx.Variables)
		fc.Args = args
		out := "null"
		func() {
			defer func() {
				if r := recover(); r != nil {
					s.log(ctx).Add("recovered:%s.%s", object, f.Name)
					graphql.AddError(fctx, graphql.Recover(fctx, r))
					out = "null"
				}
			}()
			m := opCtx.RootResolverMiddleware(fctx, func(rctx context.Context) graphql.Marshaler {
				s.log(ctx).Add("rootfield:%s.%s", object, f.Name)
				res, err := opCtx.ResolverMiddleware(rctx, func(rctx context.Context) (any, error) {
					s.log(ctx).Add("resolver:%s.%s(%s)", object, f.Name, fmtArgs(args))
					if s.Hook != nil {
						s.Hook(rctx, object, f.Name, args)
					}
					v, err := s.resolve(rctx, object, f, args)
					return v, err
				})
				if err != nil {
					graphql.AddError(rctx, err)
					return graphql.Null
				}
				if str, ok := res.(string); ok {
					return graphql.WriterFunc(func(w io.Writer) {
						w.Write([]byte(str))
					})
				}
				return graphql.Null
			})
			var fb bytes.Buffer
			if m == nil {
				m = graphql.Null
			}
			m.MarshalGQL(&fb)
			out = fb.String()
		}()
		if out == "null" && def != nil && def.Type.NonNull {
			invalid = true
		}
		buf.WriteString(out)
	}
	buf.WriteByte('}')
	if invalid {
		return &graphql.Response{Data: []byte("null")}
	}
	return &graphql.Response{Data: buf.Bytes()}
}

func (s *Schema) Exec(ctx context.Context) graphql.ResponseHandler {
	opCtx := graphql.GetOperationContext(ctx)
	s.log(ctx).Add("exec:%s", opCtx.Operation.Operation)
	switch opCtx.Operation.Operation {
	case ast.Query, ast.Mutation:
		obj := "Query"
		if opCtx.Operation.Operation == ast.Mutation {
			obj = "Mutation"
		}
		call := 0
		return func(ctx context.Context) *graphql.Response {
			call++
			if call == 1 {
				r := s.execRoot(ctx, obj)
				s.log(ctx).Add("payload:%s", r.Data)
				if len(s.Incremental) > 0 {
					r.HasNext = new(bool)
					*r.HasNext = true
				}
				return r
			}
			k := call - 2
			if k < len(s.Incremental) {
				if s.IncHook != nil {
					s.IncHook(k)
				}
				s.log(ctx).Add("payload:%s", s.Incremental[k])
				hn := k+1 < len(s.Incremental)
				path := ast.Path{ast.PathName("a")}
				if k < len(s.IncPaths) {
					path = nil
					for _, seg := range s.IncPaths[k] {
						path = append(path, ast.PathName(seg))
					}
				}
				return &graphql.Response{Data: []byte(s.Incremental[k]), Path: path, HasNext: &hn}
			}
			return nil
		}
	case ast.Subscription:
		fields := graphql.CollectFields(opCtx, opCtx.Operation.SelectionSet, []string{"Subscription"})
		if len(fields) != 1 {
			return graphql.OneShot(graphql.ErrorResponse(ctx, "subscriptions need exactly one field"))
		}
		f := fields[0]
		args := f.ArgumentMap(opCtx.Variables)
		s.log(ctx).Add("resolver:Subscription.%s(%s)", f.Name, fmtArgs(args))
		call := 0
		return func(ctx context.Context) *graphql.Response {
			if s.Sub == nil {
				return nil
			}
			step := s.Sub(ctx, f.Name, args, call)
			call++
			switch step.Kind {
			case "emit":
				kb, _ := json.Marshal(f.Alias)
				d := fmt.Sprintf("{%s:%d}", kb, step.Val)
				if step.Raw != "" {
					d = fmt.Sprintf("{%s:%s}", kb, step.Raw)
				}
				s.log(ctx).Add("payload:%s", d)
				return &graphql.Response{Data: []byte(d)}
			case "error":
				graphql.AddError(ctx, fmt.Errorf("subscription error"))
				return &graphql.Response{Data: []byte("null")}
			case "panic":
				panic("subscription panic")
			case "late-error":
				// an error reported after the stream started: the transport sends it when the stream ends
				transport.AddSubscriptionError(ctx, gqlerror.Errorf("late error of %s(%s)", f.Name, fmtArgs(args)))
				return nil
			default:
				return nil
			}
		}
	}
	return graphql.OneShot(graphql.ErrorResponse(ctx, "unsupported operation"))
}

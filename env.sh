# sourced by every command in /verif
export PATH=/root/go/pkg/mod/golang.org/toolchain@v0.0.1-go1.23.8.linux-amd64/bin:$PATH
export GOTOOLCHAIN=local GOFLAGS=-mod=mod GOPROXY=off GONOSUMDB=* GONOSUMCHECK=1 GOFLAGS=-mod=mod
export VERIF_ROOT=/verif
export VERIF_SCRATCH=${VERIF_SCRATCH:-/var/tmp}

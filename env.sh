# sourced by every command in /verif
export PATH=/root/go/pkg/mod/golang.org/toolchain@v0.0.1-go1.23.8.linux-amd64/bin:$PATH
export GOTOOLCHAIN=local GOFLAGS=-mod=mod GOPROXY=off
export VERIF_ROOT=/verif
export VERIF_SCRATCH=${VERIF_SCRATCH:-/var/tmp}
# The tree under test. Always /repo for registered checks; mutation experiments point it at a
# patched scratch copy (tools/with_patch.sh). Builds inside /verif then use an alternate
# go.mod whose replace directive points at that copy ($VERIF_MODFLAG).
export VERIF_REPO=${VERIF_REPO:-/repo}
export VERIF_MODFLAG=""
if [ "$VERIF_REPO" != /repo ]; then
  sed "s#=> /repo\$#=> $VERIF_REPO#" /verif/go.mod > $VERIF_REPO/.verif-alt.mod
  cp /verif/go.sum $VERIF_REPO/.verif-alt.sum
  export VERIF_MODFLAG="-modfile=$VERIF_REPO/.verif-alt.mod"
fi

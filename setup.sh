#!/bin/bash
# setup_cmd: build the framework tools and pre-warm the Go build cache. Offline.
cd /verif
. ./env.sh
mkdir -p bin evidence replays
go build ./common/... || exit 1
for d in cmd/*/; do
  [ -d "$d" ] || continue
  n=$(basename $d)
  go build -o bin/$n ./$d || exit 1
done
# warm caches (errors here are not fatal; checks rebuild anyway)
for d in props/*/; do
  n=$(basename $d)
  if ls $d/*.go >/dev/null 2>&1; then go build -o bin/$n ./$d 2>/dev/null || true; fi
done
exit 0

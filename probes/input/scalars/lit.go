// Package scalars holds the hand-written model of the probe's custom scalar Lit, bound
// through gqlgen.yml `models:`. Lit keeps a canonical text of whatever raw value gqlgen
// hands to UnmarshalGQL: "s:<string>", "b:<bool>", "n:<number>" (integers in decimal,
// integral floats as integers, other floats in shortest form). Lists, objects and nil are
// not Lit values.
package scalars

import (
	"encoding/json"
	"fmt"
	"io"
	"math"
	"math/big"
	"strconv"
)

type Lit struct {
	Canon string
}

func CanonFloat(f float64) string {
	if f == math.Trunc(f) && math.Abs(f) < 1e15 {
		return strconv.FormatInt(int64(f), 10)
	}
	return strconv.FormatFloat(f, 'g', -1, 64)
}

func (l *Lit) UnmarshalGQL(v any) error {
	switch v := v.(type) {
	case string:
		l.Canon = "s:" + v
	case bool:
		l.Canon = "b:" + strconv.FormatBool(v)
	case int:
		l.Canon = "n:" + strconv.FormatInt(int64(v), 10)
	case int64:
		l.Canon = "n:" + strconv.FormatInt(v, 10)
	case int32:
		l.Canon = "n:" + strconv.FormatInt(int64(v), 10)
	case float64:
		l.Canon = "n:" + CanonFloat(v)
	case json.Number:
		if i, ok := new(big.Int).SetString(string(v), 10); ok {
			l.Canon = "n:" + i.String()
			return nil
		}
		f, err := strconv.ParseFloat(string(v), 64)
		if err != nil {
			return fmt.Errorf("Lit: bad number %q", string(v))
		}
		l.Canon = "n:" + CanonFloat(f)
	default:
		return fmt.Errorf("Lit cannot represent %T", v)
	}
	return nil
}

func (l Lit) MarshalGQL(w io.Writer) {
	io.WriteString(w, strconv.Quote(l.Canon))
}

package exech

import (
	"encoding/json"
	"fmt"
	"os"
	"strings"

	"verif/common"
)

// SpecFor returns the enumeration job of a property/tier.
func SpecFor(prop, tier string) MassSpec {
	sp := specFor(prop, tier)
	if strings.Contains(os.Getenv("VERIF_CONFIG"), "field-directive") {
		// the schema declares the executable directive @fq on FIELD: operations put it on one field
		fqOps := []Op{
			{Text: `{t{id @fq name @fq(tag:"x") kid{req @fq}} str @fq}`},
			{Text: `{ts{plain @fq kidsReq{id @fq}} node{id @fq ... on T{name @fq}}}`},
			{Text: `{t{guarded @fq ints @fq} tReq{req @fq}}`},
			{Text: `mutation{m1{name @fq} m3 @fq}`},
			// executable directives on the operation definition
			{Text: `query @oq {t{id name} str}`},
			{Text: `query Q @oq(tag:"x") {tReq{req}}`},
			{Text: `mutation @om {m1{id name} m3}`},
			{Text: `mutation M @om(tag:"x") {m3 m2{req}}`},
		}
		sp.ExtraOps = append(sp.ExtraOps, fqOps...)
		sp.Gens = append(sp.Gens, GenCfg{Root: "Query", Fields: fieldsFor("core"), Conds: ProbeConds, MaxNodes: 3, DirVariants: []string{"@fq"}})
	}
	return sp
}

func specFor(prop, tier string) MassSpec {
	thorough := tier == "thorough"
	switch prop {
	case "C01":
		if thorough {
			return MassSpec{Deviations: 1, Thorough: true, ExtraOps: CorpusOps(), ExtraCases: MirrorCases(), Gens: []GenCfg{
				{Root: "Query", Fields: fieldsFor("core"), Conds: ProbeConds, MaxNodes: 3, Spreads: true, Dev: 2},
				{Root: "Query", Fields: fieldsFor("wide"), Conds: ProbeConds, MaxNodes: 4, Spreads: true, DirVariants: dirVariants},
				{Root: "Query", Fields: fieldsFor("core"), Conds: ProbeConds, MaxNodes: 4, Aliases: true, Spreads: true},
				{Root: "Mutation", Fields: fieldsFor("wide"), Conds: ProbeConds, MaxNodes: 4, Aliases: true, Spreads: true},
				{Root: "Query", Fields: fieldsFor("core"), Conds: ProbeConds, MaxNodes: 5, Spreads: true},
			}}
		}
		return MassSpec{Deviations: 1, ExtraOps: CorpusOps(), ExtraCases: MirrorCases(), Gens: []GenCfg{
			{Root: "Query", Fields: fieldsFor("wide"), Conds: ProbeConds, MaxNodes: 3, Aliases: true, Spreads: true},
			{Root: "Query", Fields: fieldsFor("core"), Conds: ProbeConds, MaxNodes: 3, Aliases: true, Spreads: true, DirVariants: dirVariantsQuick},
			{Root: "Mutation", Fields: fieldsFor("core"), Conds: ProbeConds, MaxNodes: 3, Aliases: true},
			{Root: "Query", Fields: fieldsFor("core"), Conds: ProbeConds, MaxNodes: 4, Spreads: true, DirVariants: dirVariantsQuick},
		}}
	case "C04":
		if thorough {
			return MassSpec{Deviations: 1, WithPanic: true, Intercept: true, ExtraCases: append(MirrorCases(), FaultCases()...), ExtraOps: append(CorpusOps(), FaultOps()...), Gens: []GenCfg{
				{Root: "Query", Fields: fieldsFor("core"), Conds: ProbeConds, MaxNodes: 4, Spreads: true},
				{Root: "Query", Fields: fieldsFor("wide"), Conds: ProbeConds, MaxNodes: 3, Aliases: true},
				{Root: "Mutation", Fields: fieldsFor("core"), Conds: ProbeConds, MaxNodes: 4},
				{Root: "Query", Fields: fieldsFor("core"), Conds: ProbeConds, MaxNodes: 3, Dev: 2},
			}}
		}
		return MassSpec{Deviations: 1, WithPanic: true, Intercept: true, ExtraCases: append(MirrorCases(), FaultCases()...), ExtraOps: append(CorpusOps(), FaultOps()...), Gens: []GenCfg{
			{Root: "Query", Fields: fieldsFor("core"), Conds: ProbeConds, MaxNodes: 4},
			{Root: "Query", Fields: fieldsFor("wide"), Conds: ProbeConds, MaxNodes: 3},
			{Root: "Mutation", Fields: fieldsFor("core"), Conds: ProbeConds, MaxNodes: 3},
		}}
	}
	common.Broken("no mass spec for %s", prop)
	return MassSpec{}
}

// CorpusOps is the hand-written corpus: shapes chosen so that every generated code path
// (sequential field, concurrent siblings, list fan-out with 0/1/2 elements, nested lists,
// abstract types, directive, arguments) is on some path. Larger than the enumerator's bound.
func CorpusOps() []Op {
	qs := []string{
		`{t{id name req kid{id name} kidReq{req}}}`,
		`{t{kids{id name kids{id}} kidsNN{req} kidsReq{name req}}}`,
		`{ts{id name kidsReq{id req}} tReq{peerReq{id} peer{id ... on T{name}}}}`,
		`{t{u{__typename ... on T{name} ... on S{title}} guarded ints plain plainReq}}`,
		`{node{id ... on T{name kid{req}} ... on S{title peer{id}}} u{... on T{req}} str strReq}`,
		`{t{... on Node{id} ... on Named{id name}}}`,
		`{t{...F1 @skip(if:true) ...F1}} fragment F1 on T{name}`,
		`{a1:t{name} a2:t{name req} t{x_id:id id}}`,
		`{arg arg2:arg(x:1) arg3:arg(x:2,y:["a","b"])}`,
		`{peers{id peer{id} ... on T{name times optStrs} ... on S{title}}}`,
		`{t{times optStrs} ts{times}}`,
		// type conditions naming a UNION: on its members, on the union itself, through a named fragment
		`{t{... on U{__typename} id} u{... on U{__typename ... on T{name}} ...FU} node{... on U{__typename}}} fragment FU on U{... on S{title}}`,
		// one response key repeated under several type conditions: the merged sub-selections of two
		// concrete types start and end with the same nodes, have the same length and differ in the middle
		`{peers{peer{id} ... on T{peer{... on T{name}}} ... on S{peer{... on T{req}}} peer{__typename}}}`,
		`{ts{kid{id} ... on Named{kid{name}} kid{plain}} t{kid{id} ... on Node{kid{req}} kid{plain}}}`,
	}
	var out []Op
	for _, q := range qs {
		out = append(out, Op{Text: q})
	}
	out = append(out, Op{Text: `mutation{m1{id name} m2{req kid{id}} m3}`})
	// an input object with defaulted fields, supplied through ONE variable to several fields
	// (the generated unmarshaller fills the defaults in; the request's variables stay untouched)
	out = append(out, Op{Text: `query($i:In){a:inp(in:$i) b:inp(in:$i) t{x:inp(in:$i) y:inp(in:$i) kids{inp(in:$i)}}}`, Vars: map[string]any{"i": map[string]any{"b": "x"}}})
	out = append(out, Op{Text: `query($i:In){inp(in:$i) t{inp(in:{b:"lit"})}}`, Vars: map[string]any{"i": map[string]any{}}})
	return out
}

// MirrorCases: two deviations at positions whose response paths differ only in one
// element (aliases of one field): an error at one, a silent null / second error at the other.
func MirrorCases() []Case {
	c := func(q string, kv ...string) Case { return Case{Op: Op{Text: q}, Plan: planOf(kv...)} }
	return []Case{
		c(`{x:t{kidReq{id}} y:t{kidReq{id}}}`, "x.kidReq", "error", "y.kidReq", "null"),
		c(`{x:t{kidReq{id}} y:t{kidReq{id}}}`, "y.kidReq", "error", "x.kidReq", "null"),
		c(`{x:tReq{id} y:tReq{id}}`, "x", "error", "y", "null"),
		c(`{t{x:kidReq{id} y:kidReq{id}}}`, "t.x", "error", "t.y", "null"),
		c(`{t{kids{x:kidReq{id}}} ts{kids{x:kidReq{id}}}}`, "t.kids[0].x", "error", "ts[0].kids[0].x", "null"),
		c(`{ts{x:peerReq{id}}}`, "ts[0].x", "error", "ts[1].x", "null"),
		c(`{x:t{req} y:t{req}}`, "x.req", "error", "y.req", "error"),
		c(`{t{times} ts{times}}`, "t.times[0]", "null", "ts[0].times[0]", "null"),
	}
}

// FaultCases: hand-written fault cases beyond one deviation: an element-level panic in a
// list of exactly ONE element (the generated marshaller has a fast path for it), and
// several panics presented by gqlgen's own DefaultRecover (no recover function configured).
func FaultCases() []Case {
	c := func(q string, kv ...string) Case { return Case{Op: Op{Text: q}, Plan: planOf(kv...)} }
	d := func(q string, kv ...string) Case {
		return Case{Op: Op{Text: q}, Plan: planOf(kv...), DefaultRecover: true}
	}
	o := func(q string, kv ...string) Case {
		return Case{Op: Op{Text: q}, Plan: planOf(kv...), OpRecover: true}
	}
	return []Case{
		c(`{peers{id} str}`, "peers", "len1", "peers[0]", "rogue"),
		c(`{t{id} peers{id peer{id}}}`, "peers", "len1", "peers[0]", "rogue"),
		c(`{ts{name}}`, "ts", "len1", "ts[0].name", "panic"),
		d(`{t{name req} str}`, "t.name", "panic", "t.req", "panic"),
		d(`{ts{name}}`, "ts[0].name", "panic", "ts[1].name", "panic"),
		d(`{t{kid{name}} node{id}}`, "t.kid.name", "panic"),
		d(`{t{name}}`, "t.name", "panic"),
		// the recover hook installed per operation (operation context mutator), server-wide decoy
		o(`{t{name req} str}`, "t.name", "panic"),
		o(`{ts{name}}`, "ts[1].name", "panic"),
		o(`{t{guarded kid{name}}}`, "@t.guarded", "panic", "t.kid.name", "panic"),
	}
}

// FaultOps: operations that put the custom-scalar marshaler / unmarshaler on a path.
func FaultOps() []Op {
	return []Op{
		{Text: `{argBoom(b:"x") t{boom name}}`},
		{Text: `query($b:Boom){argBoom(b:$b) str}`, Vars: map[string]any{"b": "y"}},
		// a LIST of the fault-capable scalar: each element is a fault point of its own
		{Text: `{argBooms(bs:["x","y","z"]) str}`},
		{Text: `query($l:[Boom!]){argBooms(bs:$l) a:argBooms(bs:["q"])}`, Vars: map[string]any{"l": []any{"v", "w"}}},
		{Text: `{ts{boom kids{boom}}}`},
		{Text: `{peers{id peer{id}} node{id} u{__typename}}`},
	}
}

// HarnessMain is the entry point of the generated-package-specific harness binary.
func HarnessMain(w Wiring) {
	w.Config = os.Getenv("VERIF_CONFIG")
	s := NewShared(w)
	prop := argValue("--prop")
	tier := common.TierFromArgs()
	if rp := argValue("--replay-case"); rp != "" {
		b, err := os.ReadFile(rp)
		if err != nil {
			common.Broken("replay: %v", err)
		}
		var doc struct {
			Replay struct {
				Case Case `json:"case"`
			} `json:"replay"`
		}
		if err := json.Unmarshal(b, &doc); err != nil {
			common.Broken("replay: %v", err)
		}
		os.Exit(s.ReplayCase(doc.Replay.Case))
	}
	sched := argValue("--emit-stats") != "" || argValue("--scenario") != "" || argValue("--replay") != ""
	switch {
	case (prop == "C01" || prop == "C04") && !sched:
		if w.Probe == "shapes" {
			s.MassMain(ShapesSpec(prop, tier))
		} else {
			s.MassMain(SpecFor(prop, tier))
		}
	default:
		if f, ok := schedProps[prop]; ok {
			f(s, tier)
			return
		}
		fmt.Fprintln(os.Stderr, "unknown --prop", prop)
		os.Exit(2)
	}
}

// schedProps are registered by sched.go (scheduler-based properties).
var schedProps = map[string]func(s *Shared, tier string){}

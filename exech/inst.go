package exech

import (
	"context"
	"encoding/json"
	"fmt"
	"reflect"
	"sort"
	"strings"
	"time"

	"github.com/vektah/gqlparser/v2/ast"
	"github.com/vektah/gqlparser/v2/gqlerror"
	"github.com/vektah/gqlparser/v2/parser"
	"github.com/vektah/gqlparser/v2/validator"

	"github.com/99designs/gqlgen/graphql"
	"github.com/99designs/gqlgen/graphql/executor"

	"verif/explore"
	"verif/vrt"
)

// Wiring is what the generated-package-specific main supplies.
type Wiring struct {
	// NewES builds the generated executable schema with universal resolvers bound to cur.
	NewES func(cur func() *Env) graphql.ExecutableSchema
	// Stub is a zero stubgen Stub (for listing resolver-backed fields).
	Stub                 any
	DefaultImpl, AltImpl reflect.Type
	// RogueImpl: a Go type that satisfies the abstract Go interfaces but is no object type
	RogueImpl            reflect.Type
	DefaultType, AltType string
	Config               string // configuration name (evidence)
	// Probe names the probe schema ("" = exec, "shapes")
	Probe string
	// MethodTypes: plan-driven model methods ("type.field" normalised -> Go result type)
	MethodTypes map[string]reflect.Type
	// MethodNoErr: plan-driven methods that have no error result
	MethodNoErr map[string]bool
}

type Resp struct {
	Ext     []string // sorted keys of the response's extensions
	Data    string
	Errors  []ErrKey
	Msgs    []string
	HasNext *bool
	Label   string
	Path    string
}

// Case is one (operation, plan) pair plus execution mode.
type Case struct {
	Op   Op   `json:"op"`
	Plan Plan `json:"plan,omitempty"`
	// Yield inserts scheduling points in resolvers (schedule exploration).
	Yield bool `json:"yield,omitempty"`
	// Cancel: offer "cancel request context" as an environment event (C05).
	Cancel bool `json:"cancel,omitempty"`
	// IgnoreCancel: resolvers do NOT look at their context (they return their values even
	// when the request context was cancelled mid-flight).
	IgnoreCancel bool `json:"ignore_cancel,omitempty"`
	// Intercept: the fault-capable field interceptor is registered and active (C04).
	Intercept bool `json:"intercept,omitempty"`
	// RegisterExt: resolvers register one response extension each (key "x@"+path)
	RegisterExt bool `json:"register_ext,omitempty"`
	// DefaultRecover: no recover function is configured, gqlgen's own DefaultRecover
	// presents panics ("internal system error"); the hook cannot be counted then.
	DefaultRecover bool `json:"default_recover,omitempty"`
	// OpRecover: the counting recover hook is installed PER OPERATION (an operation context
	// mutator sets OperationContext.RecoverFunc); the server-wide hook is a decoy that must
	// never run for a panic raised inside an operation.
	OpRecover bool `json:"op_recover,omitempty"`
}

// opRecoverExt installs a recover hook on every operation context it sees.
type opRecoverExt struct{ hook graphql.RecoverFunc }

func (opRecoverExt) ExtensionName() string                         { return "OpRecover" }
func (opRecoverExt) Validate(schema graphql.ExecutableSchema) error { return nil }
func (e opRecoverExt) MutateOperationContext(ctx context.Context, rc *graphql.OperationContext) *gqlerror.Error {
	rc.RecoverFunc = e.hook
	return nil
}

// InstallRecover wires the counting recover hook of this instance: server-wide, or per
// operation with a server-wide decoy (Case.OpRecover).
func (in *Inst) InstallRecover(set func(graphql.RecoverFunc), use func(graphql.HandlerExtension)) {
	count := func(ctx context.Context, err any) error {
		in.Env.mu.Lock()
		in.Env.Panics++
		in.Env.mu.Unlock()
		return fmt.Errorf("PANIC:%v", err)
	}
	if !in.C.OpRecover {
		set(count)
		return
	}
	set(func(ctx context.Context, err any) error {
		in.Env.mu.Lock()
		in.Env.WrongHook++
		in.Env.mu.Unlock()
		return fmt.Errorf("WRONG-HOOK:%v", err)
	})
	use(opRecoverExt{hook: count})
}

// Shared holds per-process immutable pieces.
type Shared struct {
	W          Wiring
	Schema     *ast.Schema
	resolverOf map[string]map[string]bool
	// resultType: Go result type of each resolver ("type.field" normalised), for deciding
	// which outcomes a configuration's Go types can express
	resultType map[string]reflect.Type
	mapFields  [][2]string
	es         graphql.ExecutableSchema
	cur        *Env
}

func NewShared(w Wiring) *Shared {
	s := &Shared{W: w, resolverOf: map[string]map[string]bool{}}
	s.es = w.NewES(func() *Env { return s.cur })
	CurEnv = func() *Env { return s.cur }
	s.Schema = s.es.Schema()
	s.resultType = map[string]reflect.Type{}
	sv := reflect.ValueOf(w.Stub).Elem()
	for i := 0; i < sv.NumField(); i++ {
		grp := sv.Field(i)
		if grp.Kind() != reflect.Struct {
			continue
		}
		tn := strings.TrimSuffix(sv.Type().Field(i).Name, "Resolver")
		for j := 0; j < grp.NumField(); j++ {
			if ft := grp.Field(j).Type(); ft.Kind() == reflect.Func && ft.NumOut() > 0 {
				s.resultType[norm(tn)+"."+norm(grp.Type().Field(j).Name)] = ft.Out(0)
			}
		}
	}
	for typ, gos := range ResolverFields(w.Stub) {
		m := map[string]bool{}
		for _, g := range gos {
			m[norm(g)] = true
		}
		s.resolverOf[typ] = m
	}
	for k, t := range w.MethodTypes {
		s.resultType[k] = t
		parts := strings.SplitN(k, ".", 2)
		for name := range s.Schema.Types {
			if norm(name) == parts[0] {
				if s.resolverOf[name] == nil {
					s.resolverOf[name] = map[string]bool{}
				}
				s.resolverOf[name][parts[1]] = true
			}
		}
	}
	if def := s.Schema.Types["MO"]; def != nil {
		for _, f := range def.Fields {
			kind := "*string"
			switch {
			case !s.leafType(f.Type.NamedType):
				kind = "object"
			case f.Type.NonNull:
				kind = "string"
			}
			s.mapFields = append(s.mapFields, [2]string{f.Name, kind})
		}
	}
	return s
}

func (s *Shared) leafType(name string) bool {
	d := s.Schema.Types[name]
	return d == nil || d.Kind == ast.Scalar || d.Kind == ast.Enum
}

func norm(s string) string { return strings.ToLower(strings.ReplaceAll(s, "_", "")) }

func (s *Shared) IsResolver(typ, field string) bool { return s.resolverOf[typ][norm(field)] }

// Feasible tells whether the Go types of this configuration can express outcome alt at
// position p (a value-typed result or element cannot be nil; the pointer / omit options
// change which positions are nilable).
func (s *Shared) Feasible(p Position, alt string) bool {
	if p.Object == "" {
		return true
	}
	parts := strings.SplitN(p.Object, ".", 2)
	if len(parts) != 2 {
		return true
	}
	if (alt == "error" || alt == "errval") && p.Kind == "resolver" && s.W.MethodNoErr[norm(parts[0])+"."+norm(parts[1])] {
		return false
	}
	if alt == "adderr" {
		alt = "null" // needs a nil result just as null does
	}
	if alt != "null" && alt != "alt" {
		return true
	}
	rt, ok := s.resultType[norm(parts[0])+"."+norm(parts[1])]
	if !ok {
		return true
	}
	if p.Kind == "element" {
		for rt.Kind() == reflect.Ptr {
			rt = rt.Elem()
		}
		for d := 0; d < max(p.Depth, 1); d++ {
			if rt.Kind() != reflect.Slice {
				return true
			}
			rt = rt.Elem()
		}
	}
	if alt == "alt" {
		// the alternative concrete type must implement the Go interface of the position
		return rt.Kind() != reflect.Interface || s.W.AltImpl.Implements(rt)
	}
	switch p.Kind {
	case "resolver":
		return nilable(rt)
	case "element":
		return nilable(rt) || rt == reflect.TypeOf(time.Time{})
	}
	return true
}

// Parse parses + validates an operation with the pristine gqlparser validator.
func (s *Shared) Parse(op Op) (*ast.QueryDocument, gqlerror.List) {
	doc, err := parser.ParseQuery(&ast.Source{Input: op.Text})
	if err != nil {
		return nil, gqlerror.List{err.(*gqlerror.Error)}
	}
	if errs := validator.Validate(s.Schema, doc); len(errs) > 0 {
		return nil, errs
	}
	return doc, nil
}

// Reference runs the reference executor for a case.
func (s *Shared) Reference(doc *ast.QueryDocument, c Case, q Quirks) (*Ref, *Val) {
	r := &Ref{Schema: s.Schema, Doc: doc, Op: doc.Operations[0], Vars: c.Op.Vars, Plan: c.Plan, IsResolver: s.IsResolver,
		DefaultType: s.W.DefaultType, AltType: s.W.AltType, Quirks: q, Intercept: c.Intercept}
	if r.Vars == nil {
		r.Vars = map[string]any{}
	}
	return r, r.Execute()
}

// Inst is the explore.Instance for one case.
type Inst struct {
	S    *Shared
	C    Case
	Doc  *ast.QueryDocument
	Env  *Env
	Resp []Resp
	// pre-dispatch errors (validation etc.)
	GateErrs  []string
	Done      bool
	cancel    context.CancelFunc
	Cancelled bool
	// DeferredMayBeSkipped: the operation has @defer fragments; when an object fails on its
	// own its deferred groups need not be started, so the invocations may be a sub-multiset
	// of the plain execution's
	DeferredMayBeSkipped bool
	// VarsBefore / VarsAfter: the request's variables as JSON before and after execution
	VarsBefore, VarsAfter string
}

func (s *Shared) NewInst(c Case, doc *ast.QueryDocument) *Inst {
	// every execution gets its own copy of the variables: code under test that writes into
	// them must not leak from one explored execution into the next (replays must reproduce)
	if c.Op.Vars != nil {
		c.Op.Vars = deepCopy(c.Op.Vars).(map[string]any)
	}
	return &Inst{S: s, C: c, Doc: doc}
}

func deepCopy(v any) any {
	switch x := v.(type) {
	case map[string]any:
		m := make(map[string]any, len(x))
		for k, e := range x {
			m[k] = deepCopy(e)
		}
		return m
	case []any:
		l := make([]any, len(x))
		for i, e := range x {
			l[i] = deepCopy(e)
		}
		return l
	}
	return v
}

func (in *Inst) Body() {
	s := in.S
	in.Env = &Env{Plan: in.C.Plan, DefaultImpl: s.W.DefaultImpl, AltImpl: s.W.AltImpl, RogueImpl: s.W.RogueImpl, Yield: in.C.Yield, HonourCancel: in.C.Cancel && !in.C.IgnoreCancel, Intercept: in.C.Intercept, MapFields: s.mapFields, RegisterExt: in.C.RegisterExt}
	s.cur = in.Env
	ctx := context.Background()
	if in.C.Cancel {
		var cancel context.CancelFunc
		ctx, cancel = context.WithCancel(ctx)
		in.cancel = cancel
		vrt.AddEnv(&vrt.EnvEvent{Name: "cancel-request", Enabled: func() bool { return !in.Done }, Fire: func() { in.Cancelled = true; cancel() }})
	}
	ctx = graphql.StartOperationTrace(ctx)
	ex := executor.New(s.es)
	ex.Use(FaultExt{Cur: func() *Env { return s.cur }})
	if !in.C.DefaultRecover {
		in.InstallRecover(ex.SetRecoverFunc, ex.Use)
	}
	if in.C.Op.Vars != nil {
		b, _ := json.Marshal(in.C.Op.Vars)
		in.VarsBefore = string(b)
		defer func() {
			b, _ := json.Marshal(in.C.Op.Vars)
			in.VarsAfter = string(b)
		}()
	}
	oc, errs := ex.CreateOperationContext(ctx, &graphql.RawParams{Query: in.C.Op.Text, Variables: in.C.Op.Vars})
	if len(errs) > 0 {
		for _, e := range errs {
			in.GateErrs = append(in.GateErrs, e.Message)
		}
		in.Done = true
		return
	}
	rh, rctx := ex.DispatchOperation(ctx, oc)
	// Payloads are HELD (as a batching transport does) and only read after the last one
	// has been produced: a payload whose bytes are reused for a later one shows up here.
	var held []*graphql.Response
	for {
		resp := rh(rctx)
		if resp == nil {
			break
		}
		held = append(held, resp)
		if in.Doc != nil && in.Doc.Operations[0].Operation == ast.Subscription {
			continue // one response per event until the source ends
		}
		if resp.HasNext == nil {
			// single-payload operation: one more call must return nil
			if extra := rh(rctx); extra != nil {
				held = append(held, &graphql.Response{Data: append([]byte("EXTRA:"), extra.Data...)})
			}
			break
		}
	}
	for _, resp := range held {
		r := Resp{Data: string(resp.Data), HasNext: resp.HasNext, Label: resp.Label, Path: resp.Path.String()}
		for k := range resp.Extensions {
			r.Ext = append(r.Ext, k)
		}
		sort.Strings(r.Ext)
		for _, e := range resp.Errors {
			r.Errors = append(r.Errors, ErrKey{Path: e.Path.String(), Kind: classify(e.Message)})
			r.Msgs = append(r.Msgs, e.Path.String()+": "+e.Message)
		}
		in.Resp = append(in.Resp, r)
	}
	in.Done = true
	if in.cancel != nil {
		in.cancel() // the transport cancels the request context when the handler returns
	}
}

func classify(msg string) string {
	switch {
	case strings.HasPrefix(msg, "E@"):
		return "resolver"
	case strings.HasPrefix(msg, "EI@"):
		return "interceptor"
	case strings.HasPrefix(msg, "EU@"):
		return "coercion"
	case strings.HasPrefix(msg, "PANIC:"), msg == "internal system error":
		return "panic"
	case msg == "must not be null", msg == "the requested element is null which the schema does not allow":
		return "nonnull"
	case msg == "context canceled":
		return "cancelled"
	}
	return "other:" + msg
}

func (in *Inst) Obs() string {
	b, _ := json.Marshal(struct {
		R []Resp
		G []string
		C []string
	}{in.Resp, in.GateErrs, in.sortedCalls()})
	return string(b)
}

func (in *Inst) sortedCalls() []string {
	if in.Env == nil {
		return nil
	}
	return in.Env.SortedCalls()
}

func errKeyStrings(es []ErrKey) []string {
	out := make([]string, len(es))
	for i, e := range es {
		out[i] = e.Path + "#" + e.Kind
	}
	sort.Strings(out)
	return out
}

// subMultiset: every element of a (sorted) occurs in b (sorted) at least as often.
func subMultiset(a, b []string) bool {
	j := 0
	for _, x := range a {
		for j < len(b) && b[j] < x {
			j++
		}
		if j >= len(b) || b[j] != x {
			return false
		}
		j++
	}
	return true
}

func eqStrings(a, b []string) bool {
	if len(a) != len(b) {
		return false
	}
	for i := range a {
		if a[i] != b[i] {
			return false
		}
	}
	return true
}

// compareRef compares the (single-payload) response with a reference run; "" = equal.
func (in *Inst) compareRef(q Quirks) string {
	ref, want := in.S.Reference(in.Doc, in.C, q)
	if len(in.GateErrs) > 0 {
		return fmt.Sprintf("valid operation rejected before execution: %v", in.GateErrs)
	}
	if len(in.Resp) != 1 {
		return fmt.Sprintf("expected exactly one response, got %d", len(in.Resp))
	}
	got, err := ParseOrdered(in.Resp[0].Data)
	if err != nil {
		return fmt.Sprintf("response data is not JSON: %v: %s", err, in.Resp[0].Data)
	}
	if got.JSON() != want.JSON() {
		return fmt.Sprintf("data mismatch:\n  want %s\n  got  %s", want.JSON(), got.JSON())
	}
	we, ge := errKeyStrings(ref.Errors), errKeyStrings(in.Resp[0].Errors)
	if !eqStrings(we, ge) {
		return fmt.Sprintf("errors mismatch:\n  want %v\n  got  %v (%v)", we, ge, in.Resp[0].Msgs)
	}
	wc := append([]string(nil), ref.Calls...)
	sort.Strings(wc)
	if gc := in.sortedCalls(); !eqStrings(wc, gc) && !(in.DeferredMayBeSkipped && subMultiset(gc, wc)) {
		return fmt.Sprintf("resolver invocations mismatch:\n  want %v\n  got  %v", wc, gc)
	}
	np := 0
	for _, e := range ref.Errors {
		if e.Kind == "panic" {
			np++
		}
	}
	if in.C.RegisterExt {
		// one extension per resolver invocation, none lost, none extra
		var wantExt []string
		for _, c := range ref.Calls {
			if i := strings.IndexByte(c, '|'); i >= 0 {
				wantExt = append(wantExt, "x@"+c[:i])
			}
		}
		sort.Strings(wantExt)
		if !eqStrings(wantExt, in.Resp[0].Ext) {
			return fmt.Sprintf("extensions mismatch:\n  want %v\n  got  %v", wantExt, in.Resp[0].Ext)
		}
	}
	if in.Env.WrongHook > 0 {
		return fmt.Sprintf("recover hook: the server-wide hook ran %d times although the operation carries its own", in.Env.WrongHook)
	}
	if in.Env.Panics != np && !in.C.DefaultRecover {
		return fmt.Sprintf("recover hook invoked %d times for %d injected panics", in.Env.Panics, np)
	}
	return ""
}

var quirkList = []struct {
	Name string
	Q    Quirks
}{
	{"D12-spread-visited-before-skip-include", Quirks{SpreadVisitedBeforeDirective: true}},
	{"D16-no-merge-across-unrelated-type-conditions", Quirks{NoMergeAcrossUnrelatedConditions: true}},
	{"D17-typed-nil-at-nonnull-abstract-position-no-error", Quirks{TypedNilNoError: true}},
	{"scalar-list-null-element-error-path-lacks-index", Quirks{ScalarElemErrorAtList: true}},
}

// CheckSemantics is the C01/C04/C06 oracle for single-payload operations.
func (in *Inst) CheckSemantics(x *explore.Exec) (string, string) {
	switch x.Out.Kind {
	case "crash":
		return "crash:" + firstLine(x.Out.CrashVal), x.Out.Crash
	case "blocked":
		return "deadlock", fmt.Sprintf("blocked threads: %v", x.Out.Blocked)
	case "horizon":
		return "horizon", "execution did not finish within the step horizon"
	}
	msg := in.compareRef(Quirks{})
	if msg == "" && in.VarsBefore != in.VarsAfter {
		return "request-variables-modified", fmt.Sprintf("the variables of the request were changed by its execution:\n  before %s\n  after  %s", in.VarsBefore, in.VarsAfter)
	}
	if msg == "" {
		return "", ""
	}
	for _, q := range quirkList {
		if in.compareRef(q.Q) == "" {
			return "quirk:" + q.Name, msg
		}
	}
	cls := msg
	if i := strings.IndexByte(cls, ':'); i > 0 {
		cls = cls[:i]
	}
	if i := strings.IndexByte(cls, '\n'); i > 0 {
		cls = cls[:i]
	}
	return cls, msg
}

func (in *Inst) Check(x *explore.Exec) (string, string) { return in.CheckSemantics(x) }

func firstLine(s string) string {
	if i := strings.IndexByte(s, '\n'); i >= 0 {
		s = s[:i]
	}
	if len(s) > 100 {
		s = s[:100]
	}
	return s
}

// ParseOrdered parses JSON into an ordered Val (duplicate keys are kept).
func ParseOrdered(s string) (*Val, error) {
	p := &jparser{s: s}
	v, err := p.value()
	if err != nil {
		return nil, err
	}
	p.ws()
	if p.i != len(p.s) {
		return nil, fmt.Errorf("trailing data at %d", p.i)
	}
	return v, nil
}

type jparser struct {
	s string
	i int
}

func (p *jparser) ws() {
	for p.i < len(p.s) && strings.IndexByte(" \t\r\n", p.s[p.i]) >= 0 {
		p.i++
	}
}

func (p *jparser) value() (*Val, error) {
	p.ws()
	if p.i >= len(p.s) {
		return nil, fmt.Errorf("unexpected end")
	}
	switch c := p.s[p.i]; {
	case c == '{':
		p.i++
		v := &Val{Kind: 'o'}
		p.ws()
		if p.i < len(p.s) && p.s[p.i] == '}' {
			p.i++
			return v, nil
		}
		for {
			p.ws()
			k, err := p.str()
			if err != nil {
				return nil, err
			}
			p.ws()
			if p.i >= len(p.s) || p.s[p.i] != ':' {
				return nil, fmt.Errorf("expected : at %d", p.i)
			}
			p.i++
			x, err := p.value()
			if err != nil {
				return nil, err
			}
			var ks string
			json.Unmarshal([]byte(k), &ks)
			v.Keys = append(v.Keys, ks)
			v.Vals = append(v.Vals, x)
			p.ws()
			if p.i < len(p.s) && p.s[p.i] == ',' {
				p.i++
				continue
			}
			if p.i < len(p.s) && p.s[p.i] == '}' {
				p.i++
				return v, nil
			}
			return nil, fmt.Errorf("expected , or } at %d", p.i)
		}
	case c == '[':
		p.i++
		v := &Val{Kind: 'l'}
		p.ws()
		if p.i < len(p.s) && p.s[p.i] == ']' {
			p.i++
			return v, nil
		}
		for {
			x, err := p.value()
			if err != nil {
				return nil, err
			}
			v.Elems = append(v.Elems, x)
			p.ws()
			if p.i < len(p.s) && p.s[p.i] == ',' {
				p.i++
				continue
			}
			if p.i < len(p.s) && p.s[p.i] == ']' {
				p.i++
				return v, nil
			}
			return nil, fmt.Errorf("expected , or ] at %d", p.i)
		}
	case c == '"':
		s, err := p.str()
		if err != nil {
			return nil, err
		}
		var x string
		if err := json.Unmarshal([]byte(s), &x); err != nil {
			return nil, err
		}
		b, _ := json.Marshal(x)
		_ = b
		return &Val{Kind: 's', Raw: quoteLikeRef(x)}, nil
	default:
		j := p.i
		for j < len(p.s) && strings.IndexByte(",]} \t\r\n", p.s[j]) < 0 {
			j++
		}
		tok := p.s[p.i:j]
		p.i = j
		if tok == "null" {
			return Null, nil
		}
		if !json.Valid([]byte(tok)) {
			return nil, fmt.Errorf("bad token %q", tok)
		}
		return &Val{Kind: 's', Raw: tok}, nil
	}
}

func quoteLikeRef(s string) string {
	// the reference quotes with strconv.Quote; values here are plain ASCII
	return fmt.Sprintf("%q", s)
}

func (p *jparser) str() (string, error) {
	if p.i >= len(p.s) || p.s[p.i] != '"' {
		return "", fmt.Errorf("expected string at %d", p.i)
	}
	j := p.i + 1
	for j < len(p.s) {
		if p.s[j] == '\\' {
			j += 2
			continue
		}
		if p.s[j] == '"' {
			out := p.s[p.i : j+1]
			p.i = j + 1
			return out, nil
		}
		j++
	}
	return "", fmt.Errorf("unterminated string")
}

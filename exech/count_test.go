package exech

import (
	"os"
	"testing"

	"github.com/vektah/gqlparser/v2"
	"github.com/vektah/gqlparser/v2/ast"
)

func TestCount(t *testing.T) {
	b, _ := os.ReadFile("/verif/probes/exec/schema.graphql")
	s := gqlparser.MustLoadSchema(&ast.Source{Input: string(b)})
	for _, lvl := range []string{"core", "wide"} {
		for n := 2; n <= 5; n++ {
			for _, al := range []bool{false, true} {
				if n == 5 && (al || lvl == "wide") {
					continue
				}
				c := 0
				Enumerate(GenCfg{Schema: s, Root: "Query", Fields: fieldsFor(lvl), Conds: ProbeConds, MaxNodes: n, Aliases: al, Spreads: true}, func(Op) { c++ })
				cd := 0
				Enumerate(GenCfg{Schema: s, Root: "Query", Fields: fieldsFor(lvl), Conds: ProbeConds, MaxNodes: n, Aliases: al, Spreads: true, DirVariants: dirVariants}, func(Op) { cd++ })
				t.Logf("%s N=%d alias=%v: %d ops, %d with directives", lvl, n, al, c, cd)
			}
		}
	}
}

package exech

import (
	"context"
	"fmt"

	"github.com/vektah/gqlparser/v2/ast"

	"github.com/99designs/gqlgen/graphql"
	"github.com/99designs/gqlgen/graphql/executor"
	"github.com/99designs/gqlgen/graphql/handler/lru"

	"verif/explore"
	"verif/vrt"
)

// C07 on a generated server: two requests with the SAME query text and different
// variables are served concurrently by one executor with a query cache, so both execute
// the same cached document. Each response must be the one the reference executor gives
// for that request alone - whatever the interleaving.

func init() {
	schedProps["C07"] = func(s *Shared, tier string) { s.schedMain("C07", tier) }
}

type envKey struct{}

// ctxEnv returns the Env a request carries in its context (pair scenarios), or nil.
func ctxEnv(ctx context.Context) *Env {
	e, _ := ctx.Value(envKey{}).(*Env)
	return e
}

type pairInst struct {
	S    *Shared
	Plan Plan
	Text string
	Vars [2]map[string]any
	Doc  *ast.QueryDocument
	In   [2]*Inst
}

func (p *pairInst) Body() {
	s := p.S
	ex := executor.New(s.es)
	ex.SetQueryCache(lru.New[*ast.QueryDocument](8))
	ex.SetRecoverFunc(func(ctx context.Context, err any) error {
		if e := ctxEnv(ctx); e != nil {
			e.mu.Lock()
			e.Panics++
			e.mu.Unlock()
		}
		return fmt.Errorf("PANIC:%v", err)
	})
	for i := range p.In {
		p.In[i] = &Inst{S: s, C: Case{Op: Op{Text: p.Text, Vars: deepCopy(p.Vars[i]).(map[string]any)}, Plan: p.Plan, Yield: true}, Doc: p.Doc}
		p.In[i].Env = &Env{Plan: p.Plan, DefaultImpl: s.W.DefaultImpl, AltImpl: s.W.AltImpl, RogueImpl: s.W.RogueImpl, Yield: true, MapFields: s.mapFields}
	}
	s.cur = p.In[0].Env
	run := func(i int) {
		in := p.In[i]
		ctx := context.WithValue(context.Background(), envKey{}, in.Env)
		ctx = graphql.StartOperationTrace(ctx)
		oc, errs := ex.CreateOperationContext(ctx, &graphql.RawParams{Query: p.Text, Variables: in.C.Op.Vars})
		if len(errs) > 0 {
			for _, e := range errs {
				in.GateErrs = append(in.GateErrs, e.Message)
			}
			in.Done = true
			return
		}
		rh, rctx := ex.DispatchOperation(ctx, oc)
		resp := rh(rctx)
		r := Resp{Data: string(resp.Data), HasNext: resp.HasNext, Label: resp.Label, Path: resp.Path.String()}
		for _, e := range resp.Errors {
			r.Errors = append(r.Errors, ErrKey{Path: e.Path.String(), Kind: classify(e.Message)})
			r.Msgs = append(r.Msgs, e.Path.String()+": "+e.Message)
		}
		in.Resp = append(in.Resp, r)
		in.Done = true
	}
	done := make(chan int, 1)
	vrt.Go("request-1", func() {
		run(1)
		vrt.Send(done, 1)
	})
	run(0)
	vrt.Recv(done)
}

func (p *pairInst) Obs() string {
	o := ""
	for _, in := range p.In {
		if in != nil {
			o += in.Obs() + "|"
		}
	}
	return o
}

func (p *pairInst) Check(x *explore.Exec) (string, string) {
	for i, in := range p.In {
		if in == nil {
			return "crash:before-start", x.Out.Crash
		}
		if sig, msg := in.CheckSemantics(x); sig != "" {
			return sig, fmt.Sprintf("request %d (variables %v) of two requests sharing one cached document:\n%s", i, p.Vars[i], msg)
		}
	}
	return "", ""
}

type pairCase struct {
	Name string
	Text string
	A, B map[string]any
	Plan Plan // the same resolver outcomes for both requests
}

func c07Pairs(tier string) []pairCase {
	tf := func(a, b bool) map[string]any { return map[string]any{"a": a, "b": b} }
	out := []pairCase{
		// a response key occurring several times; the first occurrence has 3 selections
		{"merged key, include flags", `query($a:Boolean!,$b:Boolean!){t{x:kid{id plain plainReq} x:kid @include(if:$a){name} x:kid @include(if:$b){req}}}`, tf(true, false), tf(false, true), nil},
		{"merged key on list elements", `query($a:Boolean!,$b:Boolean!){ts{x:kid{id plain plainReq} ... @include(if:$a){x:kid{name}} ... @skip(if:$b){x:kid{req}}}}`, tf(true, true), tf(false, false), planOf("ts", "len1")},
		{"fragment spread guarded by variables", `query($a:Boolean!,$b:Boolean!){t{...F @include(if:$a) kid{id ...F @skip(if:$b)}}} fragment F on T{name req}`, tf(true, false), tf(false, true), nil},
		{"same variables", `query($a:Boolean!,$b:Boolean!){t{x:kid{id plain plainReq} x:kid @include(if:$a){name} x:kid @include(if:$b){req}}}`, tf(true, true), tf(true, true), nil},
	}
	if tier == "thorough" {
		out = append(out,
			pairCase{"arguments from variables", `query($x:Int,$y:[String!]){arg(x:$x,y:$y) t{name}}`, map[string]any{"x": 1, "y": []any{"p"}}, map[string]any{"x": 2}, nil},
			pairCase{"abstract types", `query($a:Boolean!,$b:Boolean!){node{id ... on T @include(if:$a){name} ... on Named @include(if:$b){name id}}}`, tf(true, false), tf(false, true), nil})
	}
	return out
}

package exech

import (
	"fmt"
	"strings"

	"github.com/vektah/gqlparser/v2/ast"
)

// GenCfg configures the bounded-exhaustive operation enumerator: every operation over the
// schema with at most MaxNodes selection nodes built from the grammar {field, aliased
// field, repeated field, inline fragment with / without type condition, named fragment
// spread (and a repeated spread of the same fragment), one @skip/@include or @defer
// directive}. Operations are valid by construction; callers additionally run them
// through gqlparser's validator and drop (and count) anything it rejects.
type GenCfg struct {
	Schema   *ast.Schema
	Root     string              // "Query" or "Mutation"
	Fields   map[string][]string // type -> field alphabet (may include __typename)
	Conds    map[string][]string // type -> fragment type conditions ("" = none)
	MaxNodes int
	Aliases  bool
	Spreads  bool
	// Directive variants applied to at most one node: e.g. `@skip(if:true)`
	DirVariants []string
	// DeferVariants applied to fragments (inline / spread): e.g. `@defer`, `@defer(label:"a")`.
	// With DeferAll, every subset of fragments is marked (C13); otherwise at most one.
	DeferVariants []string
	DeferSubsets  bool
	// RequireFragment: keep only operations containing at least one fragment (C13)
	RequireFragment bool
	// Dev: plan deviations for operations of this generator (0 = the job's default)
	Dev int
}

type sel struct {
	kind  byte // 'f' field, 'i' inline fragment, 's' spread (defines fragment), 'r' repeated spread
	name  string
	alias string
	cond  string
	sub   []sel
	dir   string
	cost  int
}

type Op struct {
	Text  string         `json:"query"`
	Vars  map[string]any `json:"variables,omitempty"`
	Nodes int            `json:"nodes"`
	NDir  int            `json:"-"`
}

type gen struct {
	cfg  GenCfg
	memo map[string][][]sel
}

func namedType(t *ast.Type) string {
	for t.Elem != nil {
		t = t.Elem
	}
	return t.NamedType
}

func (g *gen) composite(name string) bool {
	d := g.cfg.Schema.Types[name]
	return d != nil && (d.Kind == ast.Object || d.Kind == ast.Interface || d.Kind == ast.Union)
}

// singles returns every single selection on typ with cost <= budget.
// key maps an actual type name to the alphabet key (root types may be renamed by a
// schema{...} declaration; the alphabets are keyed "Query" / "Mutation").
func (g *gen) key(typ string) string {
	if m := g.cfg.Schema.Mutation; m != nil && m.Name == typ {
		return "Mutation"
	}
	if q := g.cfg.Schema.Query; q != nil && q.Name == typ {
		return "Query"
	}
	return typ
}

func (g *gen) singles(typ string, budget int) []sel {
	var out []sel
	if budget < 1 {
		return nil
	}
	def := g.cfg.Schema.Types[typ]
	for _, fn := range g.cfg.Fields[g.key(typ)] {
		aliases := []string{""}
		if g.cfg.Aliases {
			aliases = append(aliases, "x_"+strings.TrimLeft(fn, "_"))
		}
		if fn == "__typename" {
			for _, a := range aliases {
				out = append(out, sel{kind: 'f', name: fn, alias: a, cost: 1})
			}
			continue
		}
		fd := def.Fields.ForName(fn)
		if fd == nil {
			continue
		}
		nt := namedType(fd.Type)
		if !g.composite(nt) {
			for _, a := range aliases {
				out = append(out, sel{kind: 'f', name: fn, alias: a, cost: 1})
			}
			continue
		}
		for _, sub := range g.sets(nt, budget-1) {
			c := 1 + cost(sub)
			for _, a := range aliases {
				out = append(out, sel{kind: 'f', name: fn, alias: a, sub: sub, cost: c})
			}
		}
	}
	for _, cond := range g.cfg.Conds[g.key(typ)] {
		inner := typ
		if cond != "" {
			inner = cond
		}
		for _, sub := range g.sets(inner, budget-1) {
			c := 1 + cost(sub)
			out = append(out, sel{kind: 'i', cond: cond, sub: sub, cost: c})
			if g.cfg.Spreads && cond != "" {
				out = append(out, sel{kind: 's', cond: cond, sub: sub, cost: c})
			}
		}
	}
	return out
}

func cost(s []sel) int {
	n := 0
	for _, x := range s {
		n += x.cost
	}
	return n
}

// sets returns every non-empty ordered selection set on typ with total cost <= budget.
func (g *gen) sets(typ string, budget int) [][]sel {
	key := fmt.Sprintf("%s/%d", typ, budget)
	if m, ok := g.memo[key]; ok {
		return m
	}
	var out [][]sel
	if budget >= 1 {
		for _, first := range g.singles(typ, budget) {
			out = append(out, []sel{first})
			rest := budget - first.cost
			if rest >= 1 {
				for _, tail := range g.sets(typ, rest) {
					out = append(out, append([]sel{first}, tail...))
				}
				// a repeated spread of the fragment just defined (the D12 shape)
				if first.kind == 's' {
					out = append(out, []sel{first, {kind: 'r', cost: 1}})
					if rest >= 2 {
						for _, tail := range g.sets(typ, rest-1) {
							out = append(out, append([]sel{first, {kind: 'r', cost: 1}}, tail...))
						}
					}
				}
			}
		}
	}
	g.memo[key] = out
	return out
}

type renderer struct {
	b       strings.Builder
	frags   []string
	nfrag   int
	usesT   bool
	usesF   bool
	lastFrg string
	// node numbering for directive placement
	node       int
	dirAt      int
	dirText    string
	deferAt    map[int]string
	nFragNodes int
}

func (r *renderer) dirFor(isFragment bool) string {
	r.node++
	out := ""
	if r.node == r.dirAt {
		out += " " + r.dirText
		if strings.Contains(r.dirText, "$t") {
			r.usesT = true
		}
		if strings.Contains(r.dirText, "$f") {
			r.usesF = true
		}
	}
	if isFragment {
		r.nFragNodes++
		if d, ok := r.deferAt[r.nFragNodes]; ok {
			out += " " + d
			if strings.Contains(d, "$t") {
				r.usesT = true
			}
			if strings.Contains(d, "$f") {
				r.usesF = true
			}
		}
	}
	return out
}

func (r *renderer) set(b *strings.Builder, ss []sel) {
	b.WriteString("{")
	last := ""
	for i, s := range ss {
		if i > 0 {
			b.WriteString(" ")
		}
		switch s.kind {
		case 'f':
			if s.alias != "" {
				b.WriteString(s.alias + ":")
			}
			b.WriteString(s.name)
			b.WriteString(r.dirFor(false))
			if len(s.sub) > 0 {
				r.set(b, s.sub)
			}
		case 'i':
			b.WriteString("...")
			if s.cond != "" {
				b.WriteString(" on " + s.cond)
			}
			b.WriteString(r.dirFor(true))
			r.set(b, s.sub)
		case 's':
			r.nfrag++
			name := fmt.Sprintf("F%d", r.nfrag)
			last = name
			b.WriteString("..." + name)
			b.WriteString(r.dirFor(true))
			var fb strings.Builder
			fb.WriteString("fragment " + name + " on " + s.cond + " ")
			r.set(&fb, s.sub)
			r.frags = append(r.frags, fb.String())
		case 'r':
			b.WriteString("..." + last)
			b.WriteString(r.dirFor(true))
		}
	}
	b.WriteString("}")
}

func countNodes(ss []sel) (nodes, frags int) {
	for _, s := range ss {
		nodes++
		if s.kind != 'f' {
			frags++
		}
		n, f := countNodes(s.sub)
		nodes += n
		frags += f
	}
	return
}

func (g *gen) render(ss []sel, dirAt int, dirText string, deferAt map[int]string) Op {
	r := &renderer{dirAt: dirAt, dirText: dirText, deferAt: deferAt}
	var body strings.Builder
	r.set(&body, ss)
	head := "query"
	if g.cfg.Root == "Mutation" {
		head = "mutation"
	}
	vars := map[string]any{}
	var decl []string
	if r.usesT {
		decl = append(decl, "$t:Boolean!")
		vars["t"] = true
	}
	if r.usesF {
		decl = append(decl, "$f:Boolean!")
		vars["f"] = false
	}
	if len(decl) > 0 {
		head += "(" + strings.Join(decl, ",") + ")"
	}
	text := head + body.String()
	for _, f := range r.frags {
		text += " " + f
	}
	if len(vars) == 0 {
		vars = nil
	}
	return Op{Text: text, Vars: vars, Nodes: cost(ss)}
}

// Enumerate calls emit for every operation of the configured space.
func Enumerate(cfg GenCfg, emit func(Op)) {
	g := &gen{cfg: cfg, memo: map[string][][]sel{}}
	root := cfg.Root
	if cfg.Root == "Mutation" && cfg.Schema.Mutation != nil {
		root = cfg.Schema.Mutation.Name
	} else if cfg.Root == "Query" && cfg.Schema.Query != nil {
		root = cfg.Schema.Query.Name
	}
	for _, ss := range g.sets(root, cfg.MaxNodes) {
		nodes, frags := countNodes(ss)
		if cfg.RequireFragment && frags == 0 {
			continue
		}
		if len(cfg.DeferVariants) == 0 {
			emit(g.render(ss, 0, "", nil))
			for at := 1; at <= nodes; at++ {
				for _, d := range cfg.DirVariants {
					emit(g.render(ss, at, d, nil))
				}
			}
			continue
		}
		// @defer placement: every non-empty subset of fragment nodes (DeferSubsets) or each
		// single fragment node, each marked node taking each variant (single variant choice
		// per operation when subsets are enumerated, to bound the product)
		if frags == 0 {
			continue
		}
		if cfg.DeferSubsets {
			for mask := 1; mask < 1<<frags; mask++ {
				for vi, v := range cfg.DeferVariants {
					m := map[int]string{}
					k := 0
					for i := 0; i < frags; i++ {
						if mask&(1<<i) != 0 {
							// alternate variants across marked fragments so shared and distinct
							// labels both occur
							m[i+1] = cfg.DeferVariants[(vi+k)%len(cfg.DeferVariants)]
							if strings.Contains(v, "label") && k > 0 && vi%2 == 0 {
								m[i+1] = v
							}
							k++
						}
					}
					emit(g.render(ss, 0, "", m))
				}
			}
		} else {
			for i := 1; i <= frags; i++ {
				for _, v := range cfg.DeferVariants {
					emit(g.render(ss, 0, "", map[int]string{i: v}))
				}
			}
		}
	}
}

// Package m2 holds the hand-written model of the `shapes` probe: an object type whose
// fields are bound to Go METHODS (with / without context, with / without error result)
// instead of struct fields or resolvers - the IsMethod paths of the generated code.
package m2

import (
	"context"
	"reflect"

	"verif/exech"
)

// H is bound to GraphQL type H. VEnv / VPath are filled by the universal resolver that
// creates the value (they match no schema field).
type H struct {
	ID    string     `json:"id"`
	VEnv  *exech.Env `json:"-"`
	VPath string     `json:"-"`
}

// Meth: no context, no error. Methods without a context cannot know their response key
// (aliases), so they always return the leaf value of their field.
func (h *H) Meth() *string { s := exech.LeafString(h.VPath, "meth"); return &s }

// MethErr: no context, with an error result (always nil).
func (h *H) MethErr() (string, error) { return exech.LeafString(h.VPath, "methErr"), nil }

// MethVal: value receiver-less int result.
func (h *H) MethVal() int { return exech.LeafInt(h.VPath, "methVal") }

// MethCtx / MethCtxReq / MethCtxList take a context: they are plan-driven like resolvers.
func (h *H) MethCtx(ctx context.Context) (*H, error) {
	v, err := exech.ResolveAs(h.VEnv, ctx, reflect.TypeOf((*H)(nil)))
	r, _ := v.Interface().(*H)
	return r, err
}

func (h *H) MethCtxReq(ctx context.Context) (string, error) {
	v, err := exech.ResolveAs(h.VEnv, ctx, reflect.TypeOf(""))
	r, _ := v.Interface().(string)
	return r, err
}

func (h *H) MethCtxList(ctx context.Context) ([]*H, error) {
	v, err := exech.ResolveAs(h.VEnv, ctx, reflect.TypeOf([]*H(nil)))
	r, _ := v.Interface().([]*H)
	return r, err
}

// MethOk: the (value, ok) shape with a context: plan-driven, ok=false for the null outcome.
func (h *H) MethOk(ctx context.Context) (*string, bool) {
	v, _ := exech.ResolveAs(h.VEnv, ctx, reflect.TypeOf((*string)(nil)))
	r, _ := v.Interface().(*string)
	return r, r != nil
}

// MethodTypes: Go result types of the plan-driven methods ("type.field", normalised).
var MethodTypes = map[string]reflect.Type{
	"h.methctx":     reflect.TypeOf((*H)(nil)),
	"h.methctxreq":  reflect.TypeOf(""),
	"h.methctxlist": reflect.TypeOf([]*H(nil)),
	"h.methok":      reflect.TypeOf((*string)(nil)),
}

// MethodNoErr: plan-driven methods without an error result (the error outcomes are infeasible).
var MethodNoErr = map[string]bool{"h.methok": true}

package exech

import (
	"fmt"
	"strconv"
	"strings"

	"verif/explore"
)

func init() {
	schedProps["C13"] = func(s *Shared, tier string) { s.schedMain("C13", tier) }
}

var deferFields = map[string][]string{
	"Query": {"t", "ts", "tReq"},
	"T":     {"id", "name", "req", "kid", "kidsReq"},
}

var deferConds = map[string][]string{
	"T":     {"", "T"},
	"Query": {},
}

// c13Cases: every query with at most N nodes containing at least one fragment, every
// non-empty subset of its fragments marked @defer (variants: plain, labelled, if:$f,
// if:$t), times every plan with at most d deviations.
// c13ShapesCases: deferred fragments on objects of the shapes probe - inside nested lists
// (paths with several indices), on struct-field objects, on method-bound and map-backed objects.
func (s *Shared) c13ShapesCases(tier string) []SchedCase {
	var out []SchedCase
	one, two := 1, 2
	type qc struct {
		q     string
		base  Plan   // keeps list fan-out small (outer list of one element: two inner elements)
		extra []Plan // deviations on top of base
	}
	with := func(base Plan, kv ...string) Plan {
		p := planOf(kv...)
		for k, v := range base {
			p[k] = v
		}
		return p
	}
	g1, gr1, ms1 := planOf("m.grid", "len1"), planOf("m.gridReq", "len1"), planOf("ms", "len1")
	corpus := []qc{
		{`{m{grid{id ... @defer{colorR}}}}`, g1, []Plan{with(g1, "m.grid[0][1].colorR", "error"), with(g1, "m.grid[0]", "null")}},
		{`{m{gridReq{id ... @defer(label:"g"){h{methCtxReq}}}}}`, gr1, []Plan{with(gr1, "m.gridReq[0][0].h.methCtxReq", "error"), with(gr1, "m.gridReq[0][1]", "null")}},
		{`{ms{kidsPlain{id ... @defer{colorR}}}}`, ms1, []Plan{with(ms1, "ms[0].kidsPlain[1].colorR", "error")}},
		{`{h{id ... @defer{methCtxReq methCtx{id ... @defer{methCtxReq}}}}}`, nil, []Plan{planOf("h.methCtx.methCtxReq", "error"), planOf("h.methCtxReq", "error"), planOf("h.methCtx", "null")}},
		{`{mo{id sub{id ... @defer{colorR}}}}`, nil, []Plan{planOf("mo.sub.colorR", "error")}},
	}
	if tier == "thorough" {
		corpus = append(corpus,
			qc{`{m{tags ... @defer{grid{id ... @defer{colorR}}}}}`, g1, []Plan{with(g1, "m.grid[0][0].colorR", "error")}},
			qc{`{ms{kidPlain{... @defer(label:"k"){colorR}} kidsPlain{... @defer(label:"k"){colorR}}}}`, ms1, nil})
	}
	for _, c := range corpus {
		op := Op{Text: c.q}
		if _, errs := s.Parse(op); errs != nil {
			panic("shapes defer corpus: " + c.q + ": " + errs[0].Message)
		}
		bound := &one
		if tier == "thorough" {
			bound = &two
		}
		base := c.base
		if base == nil {
			base = Plan{}
		}
		for _, p := range append([]Plan{base}, c.extra...) {
			out = append(out, SchedCase{Case: Case{Op: op, Plan: p, Yield: true}, Name: op.Text + " | " + p.Key(), Bound: bound})
		}
	}
	return out
}

func (s *Shared) c13Cases(tier string) []SchedCase {
	n, d := 3, 1
	variants := []string{`@defer`, `@defer(label:"a")`, `@defer(if:$f)`}
	if tier == "thorough" {
		n = 4
		variants = append(variants, `@defer(label:"b",if:$t)`)
	}
	var out []SchedCase
	seen := map[string]bool{}
	one, two := 1, 2
	bound := &one // enumerated operations: quick explores 1 deviation, thorough 2
	if tier == "thorough" {
		bound = &two
	}
	secondary := tier != "thorough" && s.W.Config != "default"
	handOnly := false // quick, list fan-out: the fault-free plan and the hand-picked failures only
	add := func(op Op, extraPlans []Plan) {
		if seen[op.Text] {
			return
		}
		seen[op.Text] = true
		doc, errs := s.Parse(op)
		if errs != nil {
			return
		}
		plans := s.Plans(doc, op, d, false, false)
		var rel []Plan
		for _, p := range extraPlans {
			if planTouches(op.Text, p) {
				rel = append(rel, p) // (a plan about positions the operation does not select is the fault-free run again)
			}
		}
		extraPlans = rel
		plans = append(plans, extraPlans...)
		b := bound
		if secondary || handOnly {
			// the second quick configuration: the fault-free plan and the hand-picked failures, one deviation
			plans = append([]Plan{{}}, extraPlans...)
			b = &one
		}
		dup := map[string]bool{}
		for _, p := range plans {
			if dup[p.Key()] {
				continue
			}
			dup[p.Key()] = true
			out = append(out, SchedCase{Case: Case{Op: op, Plan: p, Yield: true}, Name: op.Text + " | " + p.Key(), Bound: b})
		}
	}
	cfg := GenCfg{Schema: s.Schema, Root: "Query", Fields: deferFields, Conds: deferConds, MaxNodes: n, Spreads: true,
		RequireFragment: true, DeferVariants: variants, DeferSubsets: true}
	// (the second quick configuration, follow-schema, runs the hand-written corpus only)
	if tier == "thorough" || s.W.Config == "default" {
		Enumerate(cfg, func(op Op) { add(op, nil) })
	}
	// hand-written deeper shapes: nested groups, groups inside lists, a slow sibling in the
	// outer group, failures inside and outside groups
	bound = &two
	for _, q := range []string{
		`{t{id ... @defer{kid{id ... @defer{name}}}}}`,
		`{t{id ... @defer(label:"o"){req kid{id ... @defer(label:"i"){name}}}}}`,
		`{ts{id ... @defer{name}}}`,
		`{t{kidsReq{id ... @defer{name}}}}`,
		`{t{id ...F1 @defer(label:"x") ... @defer(label:"x"){req}}} fragment F1 on T{name}`,
		`{t{id ... @defer{name} name}}`,
		// same group (same label / both unlabelled) from fragments that are not adjacent
		`{t{... @defer{name} id ... @defer{req}}}`,
		`{t{... @defer(label:"A"){name} ... @defer(label:"B"){req} ... @defer(label:"A"){kid{id}}}}`,
		`{ts{... @defer(label:"A"){name} id ... @defer(label:"A"){req}}}`,
		// the same object-valued key outside the fragment and, with MORE sub-fields, inside it
		`{t{kid{id} ... @defer{kid{name}}}}`,
		`{t{kidsReq{id} ... @defer(label:"x"){kidsReq{name}}}}`,
		`{t{kid{id} ...F @defer}} fragment F on T{kid{req} name}`,
		// the deferred fragment comes FIRST and holds non-null fields
		`{t{... @defer{req} id name}}`,
		`{t{... @defer{kidsReq{id}} id}}`,
		`{ts{... @defer(label:"f"){req} id}}`,
		// a non-deferred non-null field of the object itself fails
		`{t{kidReq{id} ... @defer{name}}}`,
		`{ts{req ... @defer{name}}}`,
	} {
		op := Op{Text: q}
		bound = &two
		handOnly = false
		if tier != "thorough" && (strings.Contains(q, "{ts{") || strings.Contains(q, "kidsReq")) {
			bound = &one // list fan-out: two groups per element
			handOnly = strings.Count(q, "@defer") > 1
		}
		add(op, []Plan{planOf("t.kid.name", "error"), planOf("t.req", "error"), planOf("t.kid", "null"), planOf("t.kidReq", "null"), planOf("ts[1].req", "error"), planOf("ts[0].name", "error")})
	}
	handOnly = false
	// `if` is a NULLABLE Boolean: a variable that is omitted or null, and the literal null, are
	// valid; whichever way the server decides, the merged result is the plain one
	for _, op := range []Op{
		{Text: `query($n:Boolean){t{id ... @defer(if:$n){name}}}`},
		{Text: `query($m:Boolean){t{id ... @defer(if:$m,label:"l"){name req}}}`, Vars: map[string]any{"m": nil}},
		{Text: `{t{id ... @defer(if:null){name}}}`},
		{Text: `query($n:Boolean){ts{id ...F @defer(if:$n)}} fragment F on T{name}`},
	} {
		bound = &one
		add(op, []Plan{planOf("t.name", "error"), planOf("t.req", "error")})
	}
	return out
}

// planTouches: every position of the plan names fields the operation text selects.
func planTouches(text string, p Plan) bool {
	for k := range p {
		k = strings.TrimLeft(k, "@%~$")
		for _, seg := range strings.Split(k, ".") {
			if i := strings.IndexByte(seg, '['); i >= 0 {
				seg = seg[:i]
			}
			if seg == "" {
				continue
			}
			found := false
			for _, tok := range strings.FieldsFunc(text, func(r rune) bool {
				return !(r == '_' || r >= 'a' && r <= 'z' || r >= 'A' && r <= 'Z' || r >= '0' && r <= '9')
			}) {
				if tok == seg {
					found = true
				}
			}
			if !found {
				return false
			}
		}
	}
	return true
}

// lookup finds the value at a response path ("a.b[1].c") in an ordered value.
func lookup(v *Val, path string) *Val {
	if path == "" {
		return v
	}
	cur := v
	for _, seg := range splitPath(path) {
		if cur == nil {
			return nil
		}
		if idx, err := strconv.Atoi(seg); err == nil && cur.Kind == 'l' {
			if idx < 0 || idx >= len(cur.Elems) {
				return nil
			}
			cur = cur.Elems[idx]
			continue
		}
		if cur.Kind != 'o' {
			return nil
		}
		var next *Val
		for i, k := range cur.Keys {
			if k == seg {
				next = cur.Vals[i]
			}
		}
		cur = next
	}
	return cur
}

func splitPath(p string) []string {
	var out []string
	cur := ""
	for i := 0; i < len(p); i++ {
		switch p[i] {
		case '.':
			if cur != "" {
				out = append(out, cur)
			}
			cur = ""
		case '[':
			if cur != "" {
				out = append(out, cur)
			}
			cur = ""
		case ']':
			out = append(out, cur)
			cur = ""
		default:
			cur += string(p[i])
		}
	}
	if cur != "" {
		out = append(out, cur)
	}
	return out
}

func within(path, root string) bool {
	return path == root || strings.HasPrefix(path, root+".") || strings.HasPrefix(path, root+"[") || root == ""
}

// checkDefer is the C13 oracle.
func (si *schedInst) checkDefer(x *explore.Exec) (string, string) {
	switch x.Out.Kind {
	case "crash":
		return "crash:" + firstLine(x.Out.CrashVal), x.Out.Crash
	case "blocked":
		if !x.Out.MainDone {
			return "defer:payload-sequence-never-ends", fmt.Sprintf("blocked: %v", x.Out.Blocked)
		}
		return "", "" // leaks are C05's subject
	case "horizon":
		return "horizon", "step horizon reached"
	}
	if len(si.GateErrs) > 0 {
		return "defer:valid-operation-rejected", fmt.Sprint(si.GateErrs)
	}
	R := si.Resp
	if len(R) == 0 {
		return "defer:no-payload", "no payload"
	}
	// hasNext: true on every payload but the last
	for i, r := range R {
		last := i == len(R)-1
		hn := r.HasNext != nil && *r.HasNext
		if !last && !hn {
			return "defer:hasNext-false-before-last", fmt.Sprintf("payload %d of %d has hasNext=%v", i, len(R), r.HasNext)
		}
		if last && hn {
			return "defer:hasNext-true-on-last", fmt.Sprintf("last payload (%d) has hasNext=true", i)
		}
	}
	ref, plain := si.S.Reference(si.Doc, si.C, Quirks{})
	merged, err := ParseOrdered(R[0].Data)
	if err != nil {
		return "defer:payload-not-json", R[0].Data
	}
	type gk struct{ path, label string }
	delivered := map[gk]int{}
	var failedGroups []string
	var allErrs []ErrKey
	allErrs = append(allErrs, R[0].Errors...)
	for i := 1; i < len(R); i++ {
		p := R[i]
		allErrs = append(allErrs, p.Errors...)
		delivered[gk{p.Path, p.Label}]++
		target := lookup(merged, p.Path)
		if target == nil || target.Kind != 'o' {
			// does a later payload deliver the object (arrived too early), or was the object
			// nulled for good by null propagation in an already delivered payload?
			sig := "defer:payload-for-object-nulled-by-propagation"
			if ref.InvalidOwn[p.Path] {
				// the object is null because one of its OWN non-deferred non-null fields
				// failed: its groups must not have been started at all
				sig = "defer:group-started-for-object-that-failed-itself"
			}
			for j := i + 1; j < len(R); j++ {
				if within(p.Path, R[j].Path) && R[j].Path != p.Path {
					sig = "defer:payload-before-its-object"
				}
			}
			return sig, fmt.Sprintf("payload %d (path %q label %q data %s) arrives while %q is %s in the data merged so far: %s", i, p.Path, p.Label, p.Data, p.Path, describe(target), merged.JSON())
		}
		d, err := ParseOrdered(p.Data)
		if err != nil {
			return "defer:payload-not-json", p.Data
		}
		if d.Kind == 'n' {
			failedGroups = append(failedGroups, p.Path)
			continue
		}
		if d.Kind != 'o' {
			return "defer:payload-not-object", p.Data
		}
		for k, key := range d.Keys {
			found := false
			for j, tk := range target.Keys {
				if tk == key {
					target.Vals[j] = d.Vals[k]
					found = true
				}
			}
			if !found {
				target.Keys = append(target.Keys, key)
				target.Vals = append(target.Vals, d.Vals[k])
			}
		}
	}
	for k, n := range delivered {
		if n > 1 {
			return "defer:group-delivered-twice", fmt.Sprintf("group path=%q label=%q delivered %d times", k.path, k.label, n)
		}
	}
	// (whether a fragment's fields are actually deferred is the implementation's choice -
	// gqlgen defers only resolver-backed fields of non-root objects; a group that should
	// have been delivered and was not leaves its fields null and fails the merged==plain
	// comparison below)
	for k := range delivered {
		want := false
		for _, g := range ref.Groups {
			if g == k.path+"|"+k.label {
				want = true
			}
		}
		if !want {
			return "defer:unexpected-group", fmt.Sprintf("payload with path=%q label=%q does not correspond to a deferred group of the operation (groups: %v)", k.path, k.label, ref.Groups)
		}
	}
	// merged data equals the plain result, except that null propagation from inside a
	// deferred group stops at the group's object
	if m := compareDefer(merged, plain, "", failedGroups, ref.Errors); m != "" {
		return "defer:merged-differs-from-plain", fmt.Sprintf("%s\n  merged %s\n  plain  %s", m, merged.JSON(), plain.JSON())
	}
	we, ge := errKeyStrings(ref.Errors), errKeyStrings(allErrs)
	if !eqStrings(we, ge) {
		return "defer:errors-differ-from-plain", fmt.Sprintf("plain %v deferred %v", we, ge)
	}
	return "", ""
}

func describe(v *Val) string {
	if v == nil {
		return "absent"
	}
	switch v.Kind {
	case 'n':
		return "null"
	case 'l':
		return "a list"
	case 's':
		return "a scalar"
	}
	return "an object"
}

// compareDefer compares merged with plain; a position where plain is null but merged is
// not is allowed only if a failure lies inside a deferred group at or below that position
// (then plain's null is the propagated one that deferral stops at the group's object).
func compareDefer(m, p *Val, path string, failed []string, errs []ErrKey) string {
	if p.Kind == 'n' && m.Kind != 'n' {
		for _, f := range failed {
			if within(f, path) {
				return ""
			}
		}
		// a failing nullable field inside a group does not null the group; but plain may
		// be null here because a non-null failure inside a group propagated: groups with
		// errors below this path
		return fmt.Sprintf("at %q plain is null but merged is %s and no deferred group failed at or below it", path, describe(m))
	}
	if m.Kind != p.Kind {
		// merged null where plain has a value: allowed for fields of a failed group
		if m.Kind == 'n' {
			for _, f := range failed {
				if within(path, f) {
					return ""
				}
			}
		}
		return fmt.Sprintf("at %q merged is %s, plain is %s", path, describe(m), describe(p))
	}
	switch m.Kind {
	case 's':
		if m.Raw != p.Raw {
			return fmt.Sprintf("at %q merged %s plain %s", path, m.Raw, p.Raw)
		}
	case 'l':
		if len(m.Elems) != len(p.Elems) {
			return fmt.Sprintf("at %q list lengths differ", path)
		}
		for i := range m.Elems {
			if r := compareDefer(m.Elems[i], p.Elems[i], elemPath(path, i), failed, errs); r != "" {
				return r
			}
		}
	case 'o':
		// same keys (order of first appearance may differ only by deferral placeholders)
		if len(m.Keys) != len(p.Keys) {
			return fmt.Sprintf("at %q keys differ: merged %v plain %v", path, m.Keys, p.Keys)
		}
		for i, k := range p.Keys {
			j := -1
			for jj, mk := range m.Keys {
				if mk == k {
					j = jj
				}
			}
			if j < 0 {
				return fmt.Sprintf("at %q key %q missing in merged", path, k)
			}
			_ = i
			if r := compareDefer(m.Vals[j], p.Vals[i], joinPath(path, k), failed, errs); r != "" {
				return r
			}
		}
	}
	return ""
}

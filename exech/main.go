package exech

import (
	"encoding/json"
	"fmt"
	"os"
	"sort"
	"strconv"
	"strings"
	"syscall"
	"time"

	"github.com/vektah/gqlparser/v2/ast"

	"verif/explore"
	"verif/vrt"
)

// ProbeFields / ProbeConds: enumeration alphabets for the `exec` probe schema.
var ProbeConds = map[string][]string{
	"T":      {"", "T", "Node", "Named", "U"},
	"S":      {"", "S", "Node"},
	"Node":   {"", "T", "S", "Named", "Deep", "U"},
	"Named":  {"", "T", "Node"},
	"Deep":   {"", "T", "Node"},
	"U":      {"T", "S", "Node", "U"},
	"Peered": {"", "T", "S", "Node"},
	"Query":  {""},
}

func fieldsFor(level string) map[string][]string {
	switch level {
	case "core":
		return map[string][]string{
			"Query":    {"t", "tReq", "ts", "node", "u", "str"},
			"Mutation": {"m1", "m2", "m3"},
			"T":        {"id", "name", "req", "kid", "kidReq", "kidsReq", "kids", "peerReq", "u", "__typename"},
			"S":        {"id", "title", "peer"},
			"Node":     {"id", "__typename"},
			"Named":    {"id", "name"},
			"Deep":     {"id", "peer"},
			"U":        {"__typename"},
		}
	default: // wide
		return map[string][]string{
			"Query":    {"t", "tReq", "ts", "peers", "node", "u", "str", "strReq"},
			"Mutation": {"m1", "m2", "m3"},
			"T":        {"id", "name", "req", "plain", "plainReq", "kid", "kidReq", "kids", "kidsNN", "kidsReq", "peer", "peerReq", "u", "guarded", "ints", "times", "optStrs", "__typename"},
			"Peered":   {"id", "peer", "__typename"},
			"S":        {"id", "title", "peer", "__typename"},
			"Node":     {"id", "__typename"},
			"Named":    {"id", "name", "__typename"},
			"Deep":     {"id", "peer", "__typename"},
			"U":        {"__typename"},
		}
	}
}

// (both directives on one node, in both orders: neither may shadow the other)
var dirVariants = []string{"@skip(if:true)", "@skip(if:$f)", "@include(if:false)", "@include(if:$t)",
	"@include(if:$t) @skip(if:$t)", "@skip(if:$f) @include(if:$f)", "@include(if:true) @skip(if:false)", "@skip(if:true) @include(if:true)"}
var dirVariantsQuick = []string{"@skip(if:$t)", "@include(if:true)", "@include(if:$t) @skip(if:$t)", "@skip(if:$f) @include(if:$f)"}

// alternatives returns the non-default outcomes applicable at a position.
func alternatives(p Position, withPanic, thorough bool) []string {
	var out []string
	switch p.Kind {
	case "element":
		if !p.Nilable {
			return nil
		}
		if p.Abstract {
			if withPanic {
				return []string{"null", "alt", "rogue"}
			}
			return []string{"null", "alt"}
		}
		return []string{"null"}
	case "opdirective":
		return []string{"error"}
	case "unmarshal", "interceptor":
		out = []string{"error"}
	case "directive":
		out = []string{"error", "null"}
	case "resolver":
		out = []string{"error"}
		if withPanic && !p.List {
			out = append(out, "errval")
		}
		if p.Nilable {
			out = append(out, "null", "adderr")
		}
		if p.List {
			out = append(out, "len0", "len1")
			if thorough {
				out = append(out, "len3")
			}
		}
		if p.Abstract {
			out = append(out, "alt", "typednil")
			if withPanic {
				out = append(out, "rogue")
			}
		}
	}
	if withPanic {
		out = append(out, "panic")
	}
	return out
}

// Plans enumerates all plans with at most d deviations from the all-value plan for one
// operation: deviations are added one at a time to positions that exist in the reference
// run of the plan so far (a deviation can create or remove later positions).
func (s *Shared) Plans(doc *ast.QueryDocument, op Op, d int, withPanic, thorough bool, intercept ...bool) []Plan {
	icpt := len(intercept) > 0 && intercept[0]
	seen := map[string]bool{"": true}
	out := []Plan{{}}
	frontier := []Plan{{}}
	for depth := 0; depth < d; depth++ {
		var next []Plan
		for _, base := range frontier {
			ref, _ := s.Reference(doc, Case{Op: op, Plan: base, Intercept: icpt}, Quirks{})
			for _, pos := range ref.Positions {
				if _, dev := base[pos.Path]; dev {
					continue
				}
				for _, alt := range alternatives(pos, withPanic, thorough) {
					if !s.Feasible(pos, alt) {
						continue
					}
					np := Plan{}
					for k, v := range base {
						np[k] = v
					}
					np[pos.Path] = alt
					if k := np.Key(); !seen[k] {
						seen[k] = true
						out = append(out, np)
						next = append(next, np)
					}
				}
			}
		}
		frontier = next
	}
	return out
}

// PlanFeasible tells whether every deviation of the case's plan can be expressed by the Go
// types of this configuration (hand-written cases are written for the default options).
func (s *Shared) PlanFeasible(doc *ast.QueryDocument, c Case) bool {
	ref, _ := s.Reference(doc, c, Quirks{})
	for _, pos := range ref.Positions {
		if alt, dev := c.Plan[pos.Path]; dev && !s.Feasible(pos, alt) {
			return false
		}
	}
	return true
}

// silenced runs f with file descriptor 2 pointing at /dev/null.
func silenced(f func()) {
	old, err := syscall.Dup(2)
	null, err2 := os.OpenFile(os.DevNull, os.O_WRONLY, 0)
	if err != nil || err2 != nil {
		f()
		return
	}
	syscall.Dup2(int(null.Fd()), 2)
	defer func() {
		syscall.Dup2(old, 2)
		syscall.Close(old)
		null.Close()
	}()
	f()
}

// RunCase executes one case on the default schedule under the controlled runtime.
func (s *Shared) RunCase(c Case, doc *ast.QueryDocument) (*Inst, *explore.Exec) {
	in := s.NewInst(c, doc)
	sc, out := vrt.Run(nil, 200000, in.Body)
	return in, &explore.Exec{Sched: sc, Out: out}
}

type CaseFound struct {
	Sig  string `json:"sig"`
	Msg  string `json:"msg"`
	Case Case   `json:"case"`
}

type MassResult struct {
	Config      string         `json:"config"`
	Ops         int            `json:"ops"`
	OpsRejected int            `json:"ops_rejected_by_validator"`
	Cases       int64          `json:"cases"`
	Nontrivial  int64          `json:"nontrivial"`
	Found       []CaseFound    `json:"found,omitempty"`
	SigCounts   map[string]int `json:"sig_counts,omitempty"`
	Samples     []Case         `json:"samples,omitempty"`
	Complete    bool           `json:"complete"`
	MaxNodes    int            `json:"max_nodes"`
	Deviations  int            `json:"plan_deviations"`
	Rejected    []string       `json:"rejected_samples,omitempty"`
}

// MassSpec is one bounded-exhaustive enumeration job.
type MassSpec struct {
	Gens       []GenCfg
	Deviations int
	WithPanic  bool
	Thorough   bool
	// Intercept: activate the fault-capable field interceptor (positions "~path")
	Intercept bool
	// ExtraCases are hand-written (operation, plan) pairs beyond the deviation bound
	// (e.g. two deviations at mirrored alias paths).
	ExtraCases []Case
	// ExtraOps are hand-written operations (fault corpus etc.) prepended to the enumeration.
	ExtraOps []Op
}

func argValue(name string) string {
	for i, a := range os.Args {
		if a == name && i+1 < len(os.Args) {
			return os.Args[i+1]
		}
	}
	return ""
}

// RunMass enumerates ops × plans, running the shard i of n.
func (s *Shared) RunMass(spec MassSpec, shard, nshard int, deadline time.Time) MassResult {
	res := MassResult{Config: s.W.Config, SigCounts: map[string]int{}, Complete: true, Deviations: spec.Deviations}
	idx := 0
	seenOps := map[string]bool{}
	dev := spec.Deviations
	handle := func(op Op) {
		if seenOps[op.Text] {
			return
		}
		seenOps[op.Text] = true
		me := idx%nshard == shard
		idx++
		if !me {
			return
		}
		if !deadline.IsZero() && time.Now().After(deadline) {
			res.Complete = false
			return
		}
		doc, errs := s.Parse(op)
		if errs != nil {
			res.OpsRejected++
			if len(res.Rejected) < 5 {
				res.Rejected = append(res.Rejected, op.Text+" => "+errs[0].Message)
			}
			return
		}
		res.Ops++
		for _, plan := range s.Plans(doc, op, dev, spec.WithPanic, spec.Thorough, spec.Intercept) {
			c := Case{Op: op, Plan: plan, Intercept: spec.Intercept}
			in, x := s.RunCase(c, doc)
			res.Cases++
			if len(in.Env.Calls) > 0 || len(plan) > 0 {
				res.Nontrivial++
			}
			if len(res.Samples) < 3 && len(plan) > 0 && res.Cases%7 == 0 {
				res.Samples = append(res.Samples, c)
			}
			if sig, msg := in.CheckSemantics(x); sig != "" {
				res.SigCounts[sig]++
				if res.SigCounts[sig] <= 2 {
					res.Found = append(res.Found, CaseFound{Sig: sig, Msg: msg, Case: c})
				}
			}
		}
	}
	for k, c := range spec.ExtraCases {
		if k%nshard != shard {
			continue
		}
		doc, errs := s.Parse(c.Op)
		if errs != nil {
			panic("extra case does not validate: " + c.Op.Text + ": " + errs[0].Message)
		}
		if !s.PlanFeasible(doc, c) {
			continue // this configuration's Go types cannot express the plan
		}
		c.Intercept = spec.Intercept && !c.DefaultRecover
		var in *Inst
		var x *explore.Exec
		if c.DefaultRecover {
			// gqlgen's DefaultRecover prints the panic and a stack trace to stderr
			silenced(func() { in, x = s.RunCase(c, doc) })
		} else {
			in, x = s.RunCase(c, doc)
		}
		res.Cases++
		res.Nontrivial++
		if sig, msg := in.CheckSemantics(x); sig != "" {
			res.SigCounts[sig]++
			if res.SigCounts[sig] <= 2 {
				res.Found = append(res.Found, CaseFound{Sig: sig, Msg: msg, Case: c})
			}
		}
	}
	for _, op := range spec.ExtraOps {
		handle(op)
	}
	for _, g := range spec.Gens {
		g.Schema = s.Schema
		if g.MaxNodes > res.MaxNodes {
			res.MaxNodes = g.MaxNodes
		}
		dev = spec.Deviations
		if g.Dev > 0 {
			dev = g.Dev
		}
		Enumerate(g, handle)
	}
	return res
}

// MassMain: worker entry (--shard i/n) printing one JSON MassResult.
func (s *Shared) MassMain(spec MassSpec) {
	var i, n int
	fmt.Sscanf(argValue("--shard"), "%d/%d", &i, &n)
	if n == 0 {
		n = 1
	}
	var dl time.Time
	if v, _ := strconv.ParseInt(argValue("--deadline"), 10, 64); v > 0 {
		dl = time.Unix(v, 0)
	}
	res := s.RunMass(spec, i, n, dl)
	json.NewEncoder(os.Stdout).Encode(res)
}

// ReplayCase re-runs one case and prints what the oracle sees.
func (s *Shared) ReplayCase(c Case) int {
	doc, errs := s.Parse(c.Op)
	if errs != nil {
		fmt.Println("operation rejected by validator:", errs)
		return 2
	}
	in, x := s.RunCase(c, doc)
	fmt.Println("operation:", c.Op.Text, "vars:", c.Op.Vars)
	fmt.Println("plan:", c.Plan.Key())
	fmt.Println("outcome:", x.Out.Kind)
	fmt.Println("obs:", in.Obs())
	sig, msg := in.CheckSemantics(x)
	fmt.Printf("oracle: sig=%q\n%s\n", sig, msg)
	if sig != "" {
		return 1
	}
	return 0
}

func SortedKeys(m map[string]int) []string {
	ks := make([]string, 0, len(m))
	for k := range m {
		ks = append(ks, k)
	}
	sort.Strings(ks)
	return ks
}

var _ = strings.Join

// ---------------------------------------------------------------------------------
// Alphabets of the `shapes` probe (nested lists, enums, object-valued struct fields,
// method-bound fields, a map-backed model, an interface implementing an interface).

var ShapesConds = map[string][]string{
	"M":     {"", "Node", "Box"},
	"N":     {"", "Node"},
	"Node":  {"", "M", "N", "Box"},
	"Box":   {"", "M", "Node"},
	"Query": {""},
}

func shapesFields(level string) map[string][]string {
	f := map[string][]string{
		"Query":    {"m", "mReq", "ms", "box", "node", "h", "mo"},
		"Mutation": {"m1", "m2"},
		"M":        {"id", "color", "colorReq", "colorR", "colors", "grid", "gridReq", "tags", "kidPlain", "kidsPlain", "inner", "h", "mo", "guarded", "__typename"},
		"N":        {"id", "label"},
		"H":        {"id", "meth", "methErr", "methVal", "methCtx", "methCtxReq", "methCtxList", "methOk"},
		"MO":       {"id", "title", "sub"},
		"Node":     {"id", "__typename"},
		"Box":      {"id", "inner", "__typename"},
	}
	if level == "core" {
		f["Query"] = []string{"m", "mReq", "h", "mo", "box"}
		f["M"] = []string{"id", "color", "colorR", "grid", "gridReq", "tags", "kidPlain", "kidsPlain", "h", "mo"}
	}
	return f
}

// ShapesCorpus: larger hand-written operations over the shapes probe.
func ShapesCorpus() []Op {
	qs := []string{
		`{m{grid{id tags} gridReq{id kidPlain{id kidPlain{id}}} tags colors color colorReq colorR}}`,
		`{ms{kidsPlain{id color colorReq kidsPlain{id} grid{id}} kidPlain{kidsPlain{id} kidPlain{id} h{id meth}}}}`,
		`{h{id meth methErr methVal methCtx{id meth methCtxReq} methCtxReq methOk methCtxList{id methCtx{id methOk}}}}`,
		`{mo{id title sub{id kidPlain{id} grid{id}}} m{mo{sub{id color}}}}`,
		`{box{id inner{id ... on N{label}} ... on M{color}} node{... on Box{inner{id}} ... on N{label}}}`,
		`{mReq{gridReq{gridReq{id}} h{methCtxReq}}}`,
		`{m{x:grid{id} y:grid{colorR} guarded}}`,
	}
	var out []Op
	for _, q := range qs {
		out = append(out, Op{Text: q})
	}
	out = append(out, Op{Text: `mutation{m1{id grid{id}} m2{methCtxReq meth}}`})
	return out
}

// ShapesSpec returns the enumeration job of a property/tier over the shapes probe.
func ShapesSpec(prop, tier string) MassSpec {
	thorough := tier == "thorough"
	sp := MassSpec{Deviations: 1, Thorough: thorough, ExtraOps: ShapesCorpus()}
	if prop == "C04" {
		sp.WithPanic, sp.Intercept = true, true
	}
	if thorough {
		sp.Gens = []GenCfg{
			{Root: "Query", Fields: shapesFields("wide"), Conds: ShapesConds, MaxNodes: 4, Spreads: true},
			{Root: "Query", Fields: shapesFields("core"), Conds: ShapesConds, MaxNodes: 3, Aliases: true, Dev: 2},
			{Root: "Mutation", Fields: shapesFields("wide"), Conds: ShapesConds, MaxNodes: 3},
		}
		return sp
	}
	sp.Gens = []GenCfg{
		{Root: "Query", Fields: shapesFields("wide"), Conds: ShapesConds, MaxNodes: 3, Spreads: true, Aliases: true},
		{Root: "Query", Fields: shapesFields("core"), Conds: ShapesConds, MaxNodes: 4},
		{Root: "Mutation", Fields: shapesFields("wide"), Conds: ShapesConds, MaxNodes: 3},
	}
	return sp
}

// Package driver is the /verif-side half of the generated-code checks: it generates probe
// servers from the tree under test in several configurations, builds the instrumented
// harness binary for each and runs / merges their shards.
package driver

import (
	"bufio"
	"encoding/json"
	"fmt"
	"os"
	"os/exec"
	"path/filepath"
	"runtime"
	"strconv"
	"strings"
	"sync"
	"time"

	"verif/common"
	"verif/exech"
	"verif/explore"
	"verif/probe"
)

// ProbeConfig is one generator configuration of the exec probe.
type ProbeConfig struct {
	Name string
	// RenameRoots: the probe's Mutation root type is renamed ("Commands") and declared
	// through an explicit schema{...} block.
	RenameRoots bool
	// FieldDirective: the schema additionally declares an executable directive on FIELD,
	// which routes every generated field through _fieldMiddleware.
	FieldDirective bool
	// SplitSchema: the schema is spread over two files (directives, scalars and root types
	// in one, everything else in the other): under follow-schema each file is rendered
	// from its own template data.
	SplitSchema bool
	// Exec overrides the exec: section; Extra is appended at top level of gqlgen.yml.
	Exec  string
	Extra string
}

var (
	CfgDefault       = ProbeConfig{Name: "default"}
	CfgFollowSchema  = ProbeConfig{Name: "follow-schema", Exec: "exec:\n  layout: follow-schema\n  dir: graph\n  package: graph\n"}
	CfgFuncSyntax    = ProbeConfig{Name: "function-syntax", Extra: "use_function_syntax_for_execution_context: true\n"}
	CfgWorker1       = ProbeConfig{Name: "worker-limit-1", Exec: "exec:\n  filename: graph/generated.go\n  package: graph\n  worker_limit: 1\n"}
	CfgWorker2       = ProbeConfig{Name: "worker-limit-2", Exec: "exec:\n  filename: graph/generated.go\n  package: graph\n  worker_limit: 2\n"}
	CfgRenamedRoots  = ProbeConfig{Name: "renamed-roots", RenameRoots: true}
	CfgFieldDir      = ProbeConfig{Name: "field-directive", FieldDirective: true}
	CfgSplitFieldDir = ProbeConfig{Name: "follow-schema-split-field-directive", FieldDirective: true, SplitSchema: true, Exec: "exec:\n  layout: follow-schema\n  dir: graph\n  package: graph\n"}
	CfgWorker8       = ProbeConfig{Name: "worker-limit-8", Exec: "exec:\n  filename: graph/generated.go\n  package: graph\n  worker_limit: 8\n"}
)

// ForShapes returns the configurations renamed for the shapes probe ("shapes.<name>").
func ForShapes(cfgs ...ProbeConfig) []ProbeConfig {
	out := make([]ProbeConfig, len(cfgs))
	for i, c := range cfgs {
		c.Name = "shapes." + c.Name
		out[i] = c
	}
	return out
}

// BuildBoth builds the exec probe in cfgs and the shapes probe in shapeCfgs, concurrently.
func BuildBoth(cfgs, shapeCfgs []ProbeConfig) []Built {
	var a, b []Built
	var wg sync.WaitGroup
	wg.Add(2)
	go func() { defer wg.Done(); a = BuildAll("exec", cfgs) }()
	go func() { defer wg.Done(); b = BuildAll("shapes", ForShapes(shapeCfgs...)) }()
	wg.Wait()
	return append(a, b...)
}

func Opt(name, yaml string) ProbeConfig { return ProbeConfig{Name: name, Extra: yaml} }

// probeModels: the models: section of each probe (hand-written / map-backed models).
var probeModels = map[string]string{
	"exec":   "models:\n  Boom:\n    model: verif/exech.Boom\n",
	"shapes": "models:\n  Boom:\n    model: verif/exech.Boom\n  H:\n    model: verif/exech/m2.H\n  MO:\n    model: map[string]interface{}\n",
}

// probeHarness: the harness main template of each probe (under exech/harness).
var probeHarness = map[string]string{"exec": "main.go.txt", "shapes": "shapes.go.txt"}

func (pc ProbeConfig) yaml(probeName string) string {
	ex := pc.Exec
	if ex == "" {
		ex = "exec:\n  filename: graph/generated.go\n  package: graph\n"
	}
	schema := "schema:\n  - schema.graphql\n"
	if pc.SplitSchema {
		schema = "schema:\n  - roots.graphql\n  - types.graphql\n"
	}
	return schema + ex + "model:\n  filename: graph/models_gen.go\n  package: graph\n" + probeModels[probeName] + pc.Extra
}

type Built struct {
	Cfg   ProbeConfig
	Probe string
	Dir   string
	Bin   string
	Err   error
}

// splitSchema separates an SDL text (one definition per line or brace block, as the probes
// are written) into (directive / scalar / enum declarations and the root operation types)
// and (everything else).
func splitSchema(sdl string) (roots, types string) {
	var cur strings.Builder
	depth := 0
	flush := func() {
		def := cur.String()
		cur.Reset()
		t := strings.TrimSpace(def)
		if t == "" {
			return
		}
		isRoot := strings.HasPrefix(t, "directive ") || strings.HasPrefix(t, "scalar ") || strings.HasPrefix(t, "schema ") ||
			strings.HasPrefix(t, "type Query") || strings.HasPrefix(t, "type Mutation") || strings.HasPrefix(t, "type Subscription") ||
			strings.HasPrefix(t, "type Root") || strings.HasPrefix(t, "type Commands")
		if isRoot {
			roots += def
		} else {
			types += def
		}
	}
	for _, line := range strings.SplitAfter(sdl, "\n") {
		cur.WriteString(line)
		depth += strings.Count(line, "{") - strings.Count(line, "}")
		if depth == 0 {
			flush()
		}
	}
	flush()
	return roots, types
}

// BuildAll generates + instruments + builds the harness for every configuration, in parallel.
func BuildAll(probeName string, cfgs []ProbeConfig) []Built {
	out := make([]Built, len(cfgs))
	tmpl, err := os.ReadFile(filepath.Join(common.Root, "exech", "harness", probeHarness[probeName]))
	if err != nil {
		common.Broken("harness template: %v", err)
	}
	if _, err := probe.Driver(); err != nil {
		common.Broken("%v", err)
	}
	if _, err := probe.Vinstr(); err != nil {
		common.Broken("%v", err)
	}
	var wg sync.WaitGroup
	sem := make(chan struct{}, 6)
	for i, pc := range cfgs {
		wg.Add(1)
		go func(i int, pc ProbeConfig) {
			defer wg.Done()
			sem <- struct{}{}
			defer func() { <-sem }()
			files := probe.ReadProbe(probeName)
			files["gqlgen.yml"] = pc.yaml(probeName)
			files["harness/main.go"] = string(tmpl)
			if pc.FieldDirective {
				files["schema.graphql"] = "directive @fq(tag: String) on FIELD\ndirective @oq(tag: String) on QUERY\ndirective @om(tag: String) on MUTATION\n" + files["schema.graphql"]
				files["harness/main.go"] = strings.Replace(files["harness/main.go"], "// FIELD-DIRECTIVE-HOOK", "Fq: func(ctx context.Context, obj any, next graphql.Resolver, tag *string) (any, error) { return cur().QueryDirective(ctx, next) },\n\t\t\t\t\tOq: func(ctx context.Context, obj any, next graphql.Resolver, tag *string) (any, error) { return cur().OpDirective(ctx, next) },\n\t\t\t\t\tOm: func(ctx context.Context, obj any, next graphql.Resolver, tag *string) (any, error) { return cur().OpDirective(ctx, next) },", 1)
			}
			if pc.RenameRoots {
				sdl := files["schema.graphql"]
				sdl = strings.Replace(sdl, "type Mutation {", "type Commands {", 1)
				sdl = strings.Replace(sdl, "type Query {", "type Root {", 1)
				files["schema.graphql"] = "schema { query: Root mutation: Commands subscription: Subscription }\n" + sdl
			}
			if pc.SplitSchema {
				roots, types := splitSchema(files["schema.graphql"])
				delete(files, "schema.graphql")
				files["roots.graphql"], files["types.graphql"] = roots, types
			}
			res, err := probe.Generate(probe.Spec{Name: probeName + "-" + pc.Name, Files: files, Stub: "graph/stub.go"})
			b := Built{Cfg: pc, Dir: res.Dir, Probe: probeName}
			if err != nil {
				b.Err = err
			} else if res.ExitCode != 0 {
				b.Err = fmt.Errorf("generation failed (exit %d): %s", res.ExitCode, res.Output)
			} else {
				b.Bin = filepath.Join(res.Dir, "harness.bin")
				// -maprange: generated code ranges over maps (deferred groups by label); the
				// order is pinned (sorted) so that replay is deterministic
				pkgs := append([]string{"-maprange"}, probe.RuntimePkgs...)
				pkgs = append(pkgs, "probe/graph", "github.com/gorilla/websocket:^conn\\.go$")
				b.Err = probe.BuildInstrumented(res.Dir, pkgs, "./harness", b.Bin)
			}
			out[i] = b
		}(i, pc)
	}
	wg.Wait()
	return out
}

// RunMass runs the harness of every configuration with nshard shards each (configs one
// after the other, shards in parallel) and returns the merged per-config results.
func RunMass(prop, tier string, builds []Built, budget time.Duration) []exech.MassResult {
	n := runtime.NumCPU()
	var all []exech.MassResult
	for bi, b := range builds {
		// each configuration gets an equal share of what is left of the budget
		deadline := time.Now().Add(budget / time.Duration(len(builds)-bi))
		t0 := time.Now()
		var mu sync.Mutex
		var wg sync.WaitGroup
		merged := exech.MassResult{Config: b.Cfg.Name, SigCounts: map[string]int{}, Complete: true}
		for i := 0; i < n; i++ {
			wg.Add(1)
			go func(i int) {
				defer wg.Done()
				cmd := exec.Command(b.Bin, "--prop", prop, "--tier", tier, "--shard", fmt.Sprintf("%d/%d", i, n), "--deadline", strconv.FormatInt(deadline.Unix(), 10))
				cmd.Env = append(os.Environ(), "GOMAXPROCS=2", "VERIF_CONFIG="+b.Cfg.Name)
				cmd.Stderr = os.Stderr
				out, _ := cmd.StdoutPipe()
				if err := cmd.Start(); err != nil {
					common.Broken("harness start: %v", err)
				}
				sc := bufio.NewScanner(out)
				sc.Buffer(make([]byte, 1<<20), 1<<28)
				for sc.Scan() {
					var r exech.MassResult
					if err := json.Unmarshal(sc.Bytes(), &r); err != nil {
						common.Broken("harness output: %v: %.300s", err, sc.Text())
					}
					mu.Lock()
					merged.Ops += r.Ops
					merged.OpsRejected += r.OpsRejected
					merged.Cases += r.Cases
					merged.Nontrivial += r.Nontrivial
					merged.MaxNodes = max(merged.MaxNodes, r.MaxNodes)
					merged.Deviations = r.Deviations
					if !r.Complete {
						merged.Complete = false
					}
					for k, v := range r.SigCounts {
						merged.SigCounts[k] += v
					}
					merged.Found = append(merged.Found, r.Found...)
					if len(merged.Samples) < 4 {
						merged.Samples = append(merged.Samples, r.Samples...)
					}
					if len(merged.Rejected) < 5 {
						merged.Rejected = append(merged.Rejected, r.Rejected...)
					}
					mu.Unlock()
				}
				if err := cmd.Wait(); err != nil {
					common.Broken("harness shard %d of config %s failed: %v", i, b.Cfg.Name, err)
				}
			}(i)
		}
		wg.Wait()
		budget -= time.Since(t0)
		if budget < 0 {
			budget = 0
		}
		all = append(all, merged)
	}
	return all
}

// Report folds mass results into the check: one report per (signature); the replay data
// carries the config and the case.
func Report(c *common.Check, results []exech.MassResult) {
	var cases, nontriv int64
	ops := 0
	complete := true
	per := []map[string]any{}
	for _, r := range results {
		cases += r.Cases
		nontriv += r.Nontrivial
		ops += r.Ops
		if !r.Complete {
			complete = false
		}
		per = append(per, map[string]any{"config": r.Config, "operations": r.Ops, "rejected_by_validator": r.OpsRejected, "cases": r.Cases, "signatures": r.SigCounts, "complete": r.Complete})
		seen := map[string]bool{}
		for _, f := range r.Found {
			if seen[f.Sig] {
				continue
			}
			seen[f.Sig] = true
			sig := f.Sig
			if !strings.HasPrefix(sig, "quirk:") {
				sig = sig + "@" + r.Config
			}
			c.Report(sig, f.Msg+"\n  operation: "+f.Case.Op.Text+"\n  plan: "+f.Case.Plan.Key()+"\n  config: "+r.Config, map[string]any{"config": r.Config, "case": f.Case})
		}
		for _, s := range r.Samples {
			c.Sample(map[string]any{"config": r.Config, "query": s.Op.Text, "variables": s.Op.Vars, "plan": s.Plan})
		}
	}
	c.Cov["evaluations"] = cases
	c.Cov["distinct_nontrivial"] = nontriv
	c.Cov["operations"] = ops
	c.Cov["per_config"] = per
	c.Cov["exhaustive"] = complete
}

// Replay re-runs the case of a replay file on the configuration it names.
func Replay(builds []Built, path string) int {
	b, err := os.ReadFile(path)
	if err != nil {
		common.Broken("replay: %v", err)
	}
	var doc struct {
		Replay struct {
			Config string `json:"config"`
		} `json:"replay"`
	}
	json.Unmarshal(b, &doc)
	for _, bl := range builds {
		if bl.Cfg.Name == doc.Replay.Config {
			cmd := exec.Command(bl.Bin, "--replay-case", path)
			cmd.Stdout, cmd.Stderr = os.Stdout, os.Stderr
			cmd.Env = append(os.Environ(), "VERIF_CONFIG="+bl.Cfg.Name)
			if err := cmd.Run(); err != nil {
				if ee, ok := err.(*exec.ExitError); ok {
					return ee.ExitCode()
				}
				return 2
			}
			return 0
		}
	}
	common.Broken("replay: config %q not built in this tier", doc.Replay.Config)
	return 2
}

// RunSched runs the scheduler-based exploration of prop in every configuration's harness
// (each harness shards its scenarios over worker processes itself) and returns all
// scenario statistics, scenario names prefixed with the configuration.
func RunSched(prop, tier string, builds []Built, budget time.Duration) []explore.Stats {
	var all []explore.Stats
	// the (small) shapes builds first: what they do not use of their share goes to the others
	ordered := make([]Built, 0, len(builds))
	for _, b := range builds {
		if b.Probe == "shapes" {
			ordered = append(ordered, b)
		}
	}
	for _, b := range builds {
		if b.Probe != "shapes" {
			ordered = append(ordered, b)
		}
	}
	builds = ordered
	for bi, b := range builds {
		share := budget / time.Duration(len(builds)-bi)
		t0 := time.Now()
		cmd := exec.Command(b.Bin, "--prop", prop, "--tier", tier, "--emit-stats", "1", "--budget", strconv.Itoa(int(share.Seconds())))
		cmd.Env = append(os.Environ(), "VERIF_CONFIG="+b.Cfg.Name)
		cmd.Stderr = os.Stderr
		out, err := cmd.Output()
		if err != nil {
			common.Broken("harness %s for %s failed: %v", b.Cfg.Name, prop, err)
		}
		var sts []explore.Stats
		if err := json.Unmarshal(out, &sts); err != nil {
			common.Broken("harness %s output: %v: %.300s", b.Cfg.Name, err, out)
		}
		for i := range sts {
			sts[i].Scenario = b.Cfg.Name + ": " + sts[i].Scenario
			for j := range sts[i].Found {
				sts[i].Found[j].Scenario = sts[i].Scenario
				sts[i].Found[j].Meta = map[string]any{"config": b.Cfg.Name, "case": sts[i].Found[j].Meta}
			}
		}
		all = append(all, sts...)
		budget -= time.Since(t0)
		if budget < 0 {
			budget = 0
		}
	}
	return all
}

// SchedCheck is the whole top-level main of a scheduler-based generated-code property.
func SchedCheck(prop string, cfgsQuick, cfgsThorough []ProbeConfig, bound map[string]int, assume []string) {
	SchedCheck2(prop, cfgsQuick, cfgsThorough, nil, nil, bound, assume)
}

// SchedCheck2 additionally runs the property's scenarios for the shapes probe in the given
// configurations.
func SchedCheck2(prop string, cfgsQuick, cfgsThorough, shapesQuick, shapesThorough []ProbeConfig, bound map[string]int, assume []string) {
	c := common.New(prop, "model_checking")
	cfgs, shapes := cfgsQuick, shapesQuick
	budget := 110 * time.Second
	if c.Tier == "thorough" {
		cfgs, shapes = cfgsThorough, shapesThorough
		budget = 13 * time.Minute
	}
	builds := BuildBoth(cfgs, shapes)
	for _, b := range builds {
		if b.Err != nil {
			probe.Cleanup()
			common.Broken("config %s: %v", b.Cfg.Name, b.Err)
		}
	}
	if rp := common.ReplayArg(); rp != "" {
		code := ReplaySched(builds, prop, c.Tier, rp)
		probe.Cleanup()
		os.Exit(code)
	}
	all := RunSched(prop, c.Tier, builds, budget)
	explore.Summarize(c, explore.Config{Bound: bound[c.Tier], MaxSteps: 20000}, all, len(all))
	c.Assume = assume
	if c.Tier == "thorough" && prop == "C06" {
		RacePass(c, builds[0], prop, 20)
		if len(builds) > 2 {
			// also the worker_limit build (semaphore path)
			RacePassExtra(c, builds[2], prop, 20)
		}
	}
	probe.Cleanup()
	c.Finish()
}

// ReplaySched re-runs the schedule of a replay file in the harness of its configuration.
func ReplaySched(builds []Built, prop, tier, path string) int {
	b, err := os.ReadFile(path)
	if err != nil {
		common.Broken("replay: %v", err)
	}
	var doc struct {
		Replay struct {
			Scenario string `json:"scenario"`
		} `json:"replay"`
	}
	json.Unmarshal(b, &doc)
	for _, bl := range builds {
		pre := bl.Cfg.Name + ": "
		if strings.HasPrefix(doc.Replay.Scenario, pre) {
			cmd := exec.Command(bl.Bin, "--prop", prop, "--tier", tier, "--replay", path, "--strip-prefix", pre)
			cmd.Stdout, cmd.Stderr = os.Stdout, os.Stderr
			cmd.Env = append(os.Environ(), "VERIF_CONFIG="+bl.Cfg.Name)
			if err := cmd.Run(); err != nil {
				if ee, ok := err.(*exec.ExitError); ok {
					return ee.ExitCode()
				}
				return 2
			}
			return 0
		}
	}
	common.Broken("replay: no configuration matches scenario %q in this tier", doc.Replay.Scenario)
	return 2
}

// RacePass is the auxiliary free-running -race pass (DESIGN.md 3.4) for generated-code
// harnesses: the same scenario bodies, built with the race detector from the instrumented
// sources in passthrough mode and run without the scheduler. Sampling; reported separately.
func RacePass(c *common.Check, b Built, prop string, runs int) {
	bin := b.Bin + ".race"
	if o, err := probe.GoBuild(b.Dir, "-race", "-overlay", filepath.Join(b.Dir, ".instr", "overlay.json"), "-o", bin, "./harness"); err != nil {
		common.Broken("race build: %v\n%s", err, o)
	}
	cmd := exec.Command(bin, "--prop", prop, "--tier", "quick", "--free-run", strconv.Itoa(runs))
	cmd.Env = append(os.Environ(), "VERIF_FREE_RUN=1", "GORACE=halt_on_error=0", "VERIF_CONFIG="+b.Cfg.Name)
	var stderr strings.Builder
	cmd.Stderr = &stderr
	out, _ := cmd.Output()
	races := strings.Count(stderr.String(), "WARNING: DATA RACE")
	c.Cov["race_pass"] = map[string]any{"config": b.Cfg.Name, "runs_per_scenario": runs, "data_races_reported": races, "summary": strings.TrimSpace(string(out)),
		"note": "auxiliary free-running -race pass: sampling, not the deciding step"}
	if races > 0 {
		rep := stderr.String()
		if len(rep) > 6000 {
			rep = rep[:6000]
		}
		c.Report("data-race", "the race detector reported a data race in the free-running pass:\n"+rep, map[string]any{"config": b.Cfg.Name, "report": rep})
	}
}

// RacePassExtra runs a second race pass and records it under race_pass_2.
func RacePassExtra(c *common.Check, b Built, prop string, runs int) {
	first := c.Cov["race_pass"]
	RacePass(c, b, prop, runs)
	c.Cov["race_pass_2"] = c.Cov["race_pass"]
	c.Cov["race_pass"] = first
}

package exech

import (
	"context"
	"errors"
	"fmt"
	"reflect"
	"sort"
	"strings"
	"sync"
	"time"

	"github.com/99designs/gqlgen/graphql"

	"verif/vrt"
)

// Env is the per-execution state the universal resolver works against.
type Env struct {
	Plan Plan
	mu   sync.Mutex
	// Calls: "path|Type.field" per resolver invocation, "@path" per directive call.
	Calls []string
	// Events: ordered log for ordering oracles ("start path", "end path").
	Events []string
	// Concrete Go types for abstract GraphQL types: default and alternative (pointer types).
	DefaultImpl, AltImpl reflect.Type
	RogueImpl            reflect.Type
	// Yield: insert a scheduling point in every resolver call.
	Yield bool
	// OnCall, when set, runs inside every resolver call after the yield (harness hooks:
	// cancellation triggers, "resolver observes ctx").
	OnCall func(ctx context.Context, path string)
	// HonourCancel: resolvers return ctx.Err() when they observe a cancelled context.
	HonourCancel bool
	Panics       int
	WrongHook    int // runs of the server-wide decoy hook (Case.OpRecover)
	// Intercept: the fault-injecting field interceptor is active (C04)
	Intercept bool
	// Sub scripts for subscription fields: list of steps per path.
	SubScript map[string][]string
	// RegisterExt: every resolver call registers a response extension under its own path
	// (graphql.RegisterExtension from concurrently resolved fields)
	RegisterExt bool
	// MapFields: for probes with a map-backed model, the fields of that GraphQL type
	// (name -> "string" | "*string" | "object")
	MapFields [][2]string
}

func (e *Env) logCall(s string) {
	e.mu.Lock()
	e.Calls = append(e.Calls, s)
	e.mu.Unlock()
}

func (e *Env) Event(s string) {
	e.mu.Lock()
	e.Events = append(e.Events, s)
	e.mu.Unlock()
}

func (e *Env) SortedCalls() []string {
	e.mu.Lock()
	defer e.mu.Unlock()
	c := append([]string(nil), e.Calls...)
	sort.Strings(c)
	return c
}

var (
	ctxType = reflect.TypeOf((*context.Context)(nil)).Elem()
	errType = reflect.TypeOf((*error)(nil)).Elem()
)

// Fill sets every func-typed field of the stubgen Stub (struct of structs of funcs) to a
// universal resolver bound to cur (cur() returns the Env of the running execution).
func Fill(stub any, cur func() *Env) {
	v := reflect.ValueOf(stub).Elem()
	for i := 0; i < v.NumField(); i++ {
		grp := v.Field(i)
		if grp.Kind() != reflect.Struct {
			continue
		}
		for j := 0; j < grp.NumField(); j++ {
			f := grp.Field(j)
			if f.Kind() != reflect.Func {
				continue
			}
			ft := f.Type()
			f.Set(reflect.MakeFunc(ft, func(args []reflect.Value) []reflect.Value {
				return resolve(cur(), ft, args)
			}))
		}
	}
}

// ResolverFields lists "Type.field" for every func field of the Stub, derived from the
// generated resolver interfaces' naming (XxxResolver struct, Go method name); the caller
// maps Go names back to schema names with nameOf.
func ResolverFields(stub any) map[string][]string {
	out := map[string][]string{}
	v := reflect.ValueOf(stub).Elem()
	t := v.Type()
	for i := 0; i < v.NumField(); i++ {
		grp := v.Field(i)
		if grp.Kind() != reflect.Struct {
			continue
		}
		name := strings.TrimSuffix(t.Field(i).Name, "Resolver")
		for j := 0; j < grp.NumField(); j++ {
			if grp.Field(j).Kind() == reflect.Func {
				out[name] = append(out[name], grp.Type().Field(j).Name)
			}
		}
	}
	return out
}

func pathString(ctx context.Context) (path, parent, object, field string) {
	fc := graphql.GetFieldContext(ctx)
	path = fc.Path().String()
	if fc.Parent != nil {
		parent = fc.Parent.Path().String()
	}
	return path, parent, fc.Object, fc.Field.Name
}

func resolve(e *Env, ft reflect.Type, args []reflect.Value) []reflect.Value {
	ctx := args[0].Interface().(context.Context)
	return resolveCtx(e, ctx, ft.Out(0))
}

// ResolveAs is the universal resolver for model METHODS that take a context (hand-written
// models of the shapes probe): the same plan-driven behaviour as a resolver, result type rt.
func ResolveAs(e *Env, ctx context.Context, rt reflect.Type) (reflect.Value, error) {
	out := resolveCtx(e, ctx, rt)
	err, _ := out[1].Interface().(error)
	return out[0], err
}

func resolveCtx(e *Env, ctx context.Context, rt reflect.Type) []reflect.Value {
	if ce := ctxEnv(ctx); ce != nil {
		e = ce // the request carries its own Env (several requests in one execution)
	}
	path, _, object, field := pathString(ctx)
	e.logCall(path + "|" + object + "." + field)
	e.Event("start " + path)
	if e.Yield {
		vrt.Yield("resolver " + path)
	}
	if e.OnCall != nil {
		e.OnCall(ctx, path)
	}
	defer e.Event("end " + path)
	if e.RegisterExt {
		graphql.RegisterExtension(ctx, "x@"+path, path)
	}
	zero := reflect.Zero(rt)
	noErr := reflect.Zero(errType)
	if e.HonourCancel && ctx.Err() != nil {
		return []reflect.Value{zero, reflect.ValueOf(ctx.Err())}
	}
	outcome := e.Plan.Get(path)
	switch outcome {
	case "error":
		return []reflect.Value{zero, reflect.ValueOf(errors.New("E@" + path))}
	case "panic":
		panic("P@" + path)
	case "null":
		if !nilable(rt) {
			panic(fmt.Sprintf("BROKEN-PLAN: null outcome at %s but Go type %s is not nilable", path, rt))
		}
		return []reflect.Value{zero, noErr}
	case "adderr":
		// the other way user code reports a failure: graphql.AddError + a nil result
		if !nilable(rt) {
			panic(fmt.Sprintf("BROKEN-PLAN: adderr outcome at %s but Go type %s is not nilable", path, rt))
		}
		graphql.AddError(ctx, errors.New("E@"+path))
		return []reflect.Value{zero, noErr}
	}
	if rt.Kind() == reflect.Chan {
		return []reflect.Value{e.subscribe(ctx, rt, path), noErr}
	}
	if outcome == "errval" {
		// the idiomatic "return partial, err": a non-nil value together with an error
		return []reflect.Value{e.fabricate(rt, path, field, "value"), reflect.ValueOf(errors.New("E@" + path))}
	}
	return []reflect.Value{e.fabricate(rt, path, field, outcome), noErr}
}

func nilable(t reflect.Type) bool {
	switch t.Kind() {
	case reflect.Ptr, reflect.Slice, reflect.Interface, reflect.Map, reflect.Chan:
		return true
	}
	return false
}

// fabricate builds a value of Go type t for the position at path (field = schema field name).
func (e *Env) fabricate(t reflect.Type, path, field, outcome string) reflect.Value {
	objPath := parentOf(path)
	switch t.Kind() {
	case reflect.String:
		if t.Name() == "Color" {
			return reflect.ValueOf(ColorOf(objPath, field)).Convert(t)
		}
		return reflect.ValueOf(LeafString(objPath, field)).Convert(t)
	case reflect.Map:
		return e.mapObject(t, path)
	case reflect.Int, reflect.Int32, reflect.Int64:
		return reflect.ValueOf(LeafInt(objPath, field)).Convert(t)
	case reflect.Bool:
		return reflect.ValueOf(true)
	case reflect.Float64:
		return reflect.ValueOf(float64(LeafInt(objPath, field)) + 0.5)
	case reflect.Ptr:
		if t.Elem() == reflect.TypeOf(time.Time{}) {
			v := LeafTime
			return reflect.ValueOf(&v)
		}
		if t.Elem().Kind() == reflect.Struct {
			return e.object(t, path, true)
		}
		p := reflect.New(t.Elem())
		p.Elem().Set(e.fabricate(t.Elem(), path, field, outcome))
		return p
	case reflect.Struct:
		if t == reflect.TypeOf(time.Time{}) {
			return reflect.ValueOf(LeafTime)
		}
		return e.object(reflect.PtrTo(t), path, true).Elem()
	case reflect.Interface:
		impl := e.DefaultImpl
		switch outcome {
		case "alt":
			impl = e.AltImpl
		case "typednil":
			return reflect.Zero(e.DefaultImpl).Convert(t)
		case "rogue":
			return reflect.New(e.RogueImpl.Elem()).Convert(t)
		}
		return e.object(impl, path, true).Convert(t)
	case reflect.Slice:
		n := 2
		switch outcome {
		case "len0":
			n = 0
		case "len1":
			n = 1
		case "len3":
			n = 3
		}
		s := reflect.MakeSlice(t, n, n)
		for i := 0; i < n; i++ {
			ep := elemPath(path, i)
			et := t.Elem()
			eo := e.Plan.Get(ep)
			if eo == "null" && (nilable(et) || et == reflect.TypeOf(time.Time{})) {
				continue // nil element / zero time
			}
			if et.Kind() == reflect.Slice {
				// nested list: the inner list sits at the element path
				s.Index(i).Set(e.fabricate(et, ep, field, "value"))
			} else if et == reflect.TypeOf(time.Time{}) {
				s.Index(i).Set(reflect.ValueOf(LeafTime))
			} else if et == reflect.TypeOf(&time.Time{}) {
				v := LeafTime
				s.Index(i).Set(reflect.ValueOf(&v))
			} else if et.Kind() == reflect.Ptr && et.Elem().Kind() == reflect.Struct || et.Kind() == reflect.Interface || et.Kind() == reflect.Struct {
				if eo != "alt" && eo != "rogue" {
					eo = "value"
				}
				s.Index(i).Set(e.fabricate(et, ep, field, eo))
			} else {
				// leaf elements: same convention as the reference (object path + field name)
				s.Index(i).Set(e.fabricate(et, path, field, "value"))
			}
		}
		return s
	}
	panic(fmt.Sprintf("BROKEN: cannot fabricate %s at %s", t, path))
}

// object builds *Struct with every plain (non-resolver-backed) leaf field filled from the
// object's own response path. With fill, struct fields holding OBJECTS (pointer to / slice
// of pointers to a struct) are filled too, one level deep: the objects created for them
// ("struct-filled" objects) have no struct-field objects of their own.
func (e *Env) object(pt reflect.Type, path string, fill bool) reflect.Value {
	p := reflect.New(pt.Elem())
	s := p.Elem()
	st := pt.Elem()
	for i := 0; i < s.NumField(); i++ {
		f := s.Field(i)
		name := jsonName(st.Field(i))
		switch st.Field(i).Name {
		case "VEnv":
			f.Set(reflect.ValueOf(e))
			continue
		case "VPath":
			f.SetString(path)
			continue
		}
		switch f.Kind() {
		case reflect.String:
			if f.Type().Name() == "Color" {
				f.SetString(ColorOf(path, name))
			} else {
				f.SetString(LeafString(path, name))
			}
		case reflect.Int, reflect.Int64, reflect.Int32:
			f.SetInt(int64(LeafInt(path, name)))
		case reflect.Bool:
			f.SetBool(true)
		case reflect.Ptr:
			et := f.Type().Elem()
			switch {
			case et.Kind() == reflect.String:
				pv := reflect.New(et)
				if et.Name() == "Color" {
					pv.Elem().SetString(ColorOf(path, name))
				} else {
					pv.Elem().SetString(LeafString(path, name))
				}
				f.Set(pv)
			case et.Kind() == reflect.Struct && fill && et != reflect.TypeOf(time.Time{}) && StructFillFields[name]:
				f.Set(e.object(f.Type(), joinPath(path, name), false))
			}
		case reflect.Struct:
			// struct_fields_always_pointers: false
			if fill && StructFillFields[name] && f.Type() != reflect.TypeOf(time.Time{}) {
				f.Set(e.object(reflect.PtrTo(f.Type()), joinPath(path, name), false).Elem())
			}
		case reflect.Slice:
			et := f.Type().Elem()
			if fill && StructFillFields[name] && et.Kind() == reflect.Ptr && et.Elem().Kind() == reflect.Struct {
				sl := reflect.MakeSlice(f.Type(), 2, 2)
				for k := 0; k < 2; k++ {
					sl.Index(k).Set(e.object(et, elemPath(joinPath(path, name), k), false))
				}
				f.Set(sl)
			} else if fill && StructFillFields[name] && et.Kind() == reflect.Struct {
				// omit_slice_element_pointers: []M
				sl := reflect.MakeSlice(f.Type(), 2, 2)
				for k := 0; k < 2; k++ {
					sl.Index(k).Set(e.object(reflect.PtrTo(et), elemPath(joinPath(path, name), k), false).Elem())
				}
				f.Set(sl)
			}
		}
	}
	return p
}

// StructFillFields: schema field names that are bound to struct fields holding objects
// (filled by object()); every other object-valued field is resolver / method backed.
var StructFillFields = map[string]bool{"kidPlain": true, "kidsPlain": true, "sub": true}

// mapObject builds the map[string]any behind a map-backed model at path.
func (e *Env) mapObject(t reflect.Type, path string) reflect.Value {
	m := reflect.MakeMap(t)
	for _, f := range e.MapFields {
		var v any
		switch f[1] {
		case "string":
			v = LeafString(path, f[0])
		case "*string":
			s := LeafString(path, f[0])
			v = &s
		case "object":
			v = e.object(e.DefaultImpl, joinPath(path, f[0]), false).Interface()
		}
		m.SetMapIndex(reflect.ValueOf(f[0]), reflect.ValueOf(v))
	}
	return m
}

// ColorOf is the value of an enum (Color) leaf.
func ColorOf(objPath, field string) string {
	if LeafInt(objPath, field)%2 == 0 {
		return "RED"
	}
	return "GREEN"
}

func jsonName(f reflect.StructField) string {
	tag := f.Tag.Get("json")
	if i := strings.IndexByte(tag, ','); i >= 0 {
		tag = tag[:i]
	}
	if tag == "" {
		return f.Name
	}
	return tag
}

// Directive is the universal implementation of the probe's @fd field directive.
func (e *Env) Directive(ctx context.Context, next graphql.Resolver) (any, error) {
	path := graphql.GetFieldContext(ctx).Path().String()
	e.logCall("@" + path)
	switch e.Plan.Get("@" + path) {
	case "error":
		return nil, errors.New("E@" + path)
	case "panic":
		panic("P@" + path)
	case "null":
		return nil, nil
	}
	return next(ctx)
}

// QueryDirective is the universal implementation of the executable directive @fq (location
// FIELD) that an OPERATION puts on a field: plan key "%"+path.
func (e *Env) QueryDirective(ctx context.Context, next graphql.Resolver) (any, error) {
	path := graphql.GetFieldContext(ctx).Path().String()
	e.logCall("%" + path)
	switch e.Plan.Get("%" + path) {
	case "error":
		return nil, errors.New("E@" + path)
	case "panic":
		panic("P@" + path)
	case "null":
		return nil, nil
	}
	return next(ctx)
}

// OpDirective is the universal implementation of the executable directives @oq (QUERY) and
// @om (MUTATION) that an operation carries on its definition: plan key "$".
func (e *Env) OpDirective(ctx context.Context, next graphql.Resolver) (any, error) {
	e.logCall("$")
	if e.Plan.Get("$") == "error" {
		return nil, errors.New("E@$")
	}
	return next(ctx)
}

// subscribe returns a channel of the element type fed by a managed thread according to
// the script for this path: steps "emit", "close"; default: emit, emit, close.
func (e *Env) subscribe(ctx context.Context, ct reflect.Type, path string) reflect.Value {
	script := e.SubScript[path]
	if script == nil {
		script = []string{"emit", "emit", "close"}
	}
	bidi := reflect.ChanOf(reflect.BothDir, ct.Elem())
	ch := reflect.MakeChan(bidi, 0)
	feed := func() {
		for i, st := range script {
			switch st {
			case "emit":
				v := e.fabricate(ct.Elem(), fmt.Sprintf("%s#%d", path, i), "tick", "value")
				if !sendOrDone(ctx, ch, v) {
					return
				}
			case "close":
				vrt.Yield("sub close")
				ch.Close()
				return
			}
		}
	}
	vrt.Go("subscription-source "+path, feed)
	return ch.Convert(ct)
}

// sendOrDone sends v on ch unless ctx is cancelled first (both through the controlled runtime).
func sendOrDone(ctx context.Context, ch reflect.Value, v reflect.Value) bool {
	if !vrt.Active() {
		chosen, _, _ := reflect.Select([]reflect.SelectCase{
			{Dir: reflect.SelectSend, Chan: ch, Send: v},
			{Dir: reflect.SelectRecv, Chan: reflect.ValueOf(ctx.Done())},
		})
		return chosen == 0
	}
	return vrt.ReflectSendOrDone(ch, v, ctx.Done())
}

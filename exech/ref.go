// Package exech is the execution-semantics harness library shared by C01, C04, C05, C06
// and C13: a reference GraphQL executor written from the specification (ref.go), a
// reflective universal resolver that drives generated servers from a *plan* of outcomes
// (uni.go), an operation enumerator (opgen.go) and the explore.Instance that runs one
// operation through the real executor + generated code and compares (inst.go).
package exech

import (
	"fmt"
	"sort"
	"strconv"
	"strings"
	"time"

	"github.com/vektah/gqlparser/v2/ast"
)

// Plan assigns an outcome to a position (response path, "@"+path for the @fd directive
// call at that path). Missing = "value".
//
//	resolver positions:   value | null | error | panic
//	list-valued ones:     value(=len2) | len0 | len1 | len3 | null | error | panic
//	abstract (iface/union) positions: value | alt | typednil | null | error | panic
//	list element positions path[i]:   value | null
//	directive positions "@path":      value | null | error | panic
type Plan map[string]string

func (p Plan) Key() string {
	ks := make([]string, 0, len(p))
	for k := range p {
		ks = append(ks, k)
	}
	sort.Strings(ks)
	var b strings.Builder
	for _, k := range ks {
		fmt.Fprintf(&b, "%s=%s;", k, p[k])
	}
	return b.String()
}

func (p Plan) Get(pos string) string {
	if o, ok := p[pos]; ok {
		return o
	}
	return "value"
}

// Val is an ordered JSON value.
type Val struct {
	Kind  byte // 'n' null, 's' scalar (Raw), 'l' list, 'o' object
	Raw   string
	Keys  []string
	Vals  []*Val
	Elems []*Val
}

var Null = &Val{Kind: 'n'}

func (v *Val) JSON() string {
	var b strings.Builder
	v.write(&b)
	return b.String()
}

func (v *Val) write(b *strings.Builder) {
	switch v.Kind {
	case 'n':
		b.WriteString("null")
	case 's':
		b.WriteString(v.Raw)
	case 'l':
		b.WriteByte('[')
		for i, e := range v.Elems {
			if i > 0 {
				b.WriteByte(',')
			}
			e.write(b)
		}
		b.WriteByte(']')
	case 'o':
		b.WriteByte('{')
		for i, k := range v.Keys {
			if i > 0 {
				b.WriteByte(',')
			}
			b.WriteString(strconv.Quote(k))
			b.WriteByte(':')
			v.Vals[i].write(b)
		}
		b.WriteByte('}')
	}
}

// ErrKey is one expected / observed error: response path + kind
// (resolver | panic | nonnull | directive).
type ErrKey struct {
	Path string
	Kind string
}

// Position is a place where the plan can deviate (collected during a reference run).
type Position struct {
	Path     string
	Kind     string // resolver | element | directive
	GQLType  string
	Nilable  bool // a Go nil can be returned here and means null
	List     bool
	Abstract bool
	Object   string // "Type.field"
	Deferred bool
	// Depth: for element positions, the nesting depth of the element (1 = element of the
	// field's list, 2 = element of an inner list, ...)
	Depth int
}

// Quirks switch the reference to gqlgen's (defective) behaviour for one named known
// finding, so that the check can verify the finding explains a disagreement completely.
type Quirks struct {
	// D12: a fragment spread is marked visited before its @skip/@include is evaluated.
	SpreadVisitedBeforeDirective bool
	// D16: same response key reached through two unrelated abstract type conditions is not merged.
	NoMergeAcrossUnrelatedConditions bool
	// D17: typed-nil pointer at a non-null abstract position: null without an error.
	TypedNilNoError bool
	// a null element of a non-null SCALAR list is reported at the list's path, without the
	// element index (scalar list elements get no field context of their own)
	ScalarElemErrorAtList bool
}

type Ref struct {
	Schema *ast.Schema
	Doc    *ast.QueryDocument
	Op     *ast.OperationDefinition
	Vars   map[string]any
	Plan   Plan
	// IsResolver tells whether Type.field is bound to a resolver method (else a struct field).
	IsResolver func(typeName, field string) bool
	// AltType gives the alternative concrete type for an abstract type ("S" when default is "T").
	DefaultType, AltType string
	Quirks               Quirks
	// Intercept: a fault-capable field interceptor wraps every field (positions "~path")
	Intercept bool

	Errors    []ErrKey
	Calls     []string // "path|Type.field" per resolver invocation, "@path" per directive call
	Positions []Position
	// Groups: "objectPath|label" for every object visited whose selection contains fields
	// reached through an (effective) @defer fragment - the deferred groups that start.
	Groups []string
	// InvalidOwn: paths of objects that are null because one of their OWN non-deferred
	// non-null fields failed (as opposed to being removed by propagation from elsewhere)
	InvalidOwn map[string]bool
	errAt      map[string]bool
	// structFilled: paths of objects that came out of a struct field of their parent (not
	// out of a resolver): the harness fills such fields one level deep only
	structFilled map[string]bool
	fillMode     bool
	// ident: response path of a struct-filled object -> the path the harness built it
	// under (parent's identity + FIELD NAME: a struct field cannot know the alias it is
	// selected under); leaf values derive from the identity path
	ident map[string]string
	// curField: "Type.field" of the resolver whose result is being completed
	curField string
	// DeferIgnored: @defer treated as plain (the undeferred reference run)
}

func joinPath(parent, key string) string {
	if parent == "" {
		return key
	}
	return parent + "." + key
}

func elemPath(p string, i int) string { return p + "[" + strconv.Itoa(i) + "]" }

// Execute runs the operation and returns the data value (Null when propagated to the root).
func (r *Ref) Execute() *Val {
	r.errAt = map[string]bool{}
	r.structFilled = map[string]bool{}
	r.ident = map[string]string{}
	var rootName string
	switch r.Op.Operation {
	case ast.Query:
		rootName = r.Schema.Query.Name
	case ast.Mutation:
		rootName = r.Schema.Mutation.Name
	case ast.Subscription:
		rootName = r.Schema.Subscription.Name
	}
	root := r.Schema.Types[rootName]
	// an executable directive on the operation definition (@oq on QUERY, @om on MUTATION)
	// wraps the whole execution
	if r.Op.Directives.ForName("oq") != nil || r.Op.Directives.ForName("om") != nil {
		r.Calls = append(r.Calls, "$")
		r.Positions = append(r.Positions, Position{Path: "$", Kind: "opdirective"})
		if r.Plan.Get("$") == "error" {
			r.addErr("", "resolver")
			return Null
		}
	}
	v, _ := r.selectionSet(root, "", r.Op.SelectionSet)
	return v
}

func (r *Ref) addErr(path, kind string) {
	r.Errors = append(r.Errors, ErrKey{path, kind})
	r.errAt[path] = true
}

type group struct {
	key      string
	deferred bool
	label    string
	labels   []string // labels of every active enclosing @defer (the statement does not say which one names a nested group)
	fields   []*ast.Field
	// D16 quirk: the type condition context the first field came through
	cond string
}

func (r *Ref) include(dirs ast.DirectiveList) bool {
	skip, include := false, true
	if d := dirs.ForName("skip"); d != nil {
		skip = r.ifArg(d)
	}
	if d := dirs.ForName("include"); d != nil {
		include = r.ifArg(d)
	}
	return !skip && include
}

func (r *Ref) ifArg(d *ast.Directive) bool {
	a := d.Arguments.ForName("if")
	if a == nil {
		return false
	}
	v, err := a.Value.Value(r.Vars)
	if err != nil {
		return false
	}
	b, _ := v.(bool)
	return b
}

func (r *Ref) typeApplies(obj *ast.Definition, cond string) bool {
	if cond == "" || cond == obj.Name {
		return true
	}
	for _, i := range obj.Interfaces {
		if i == cond {
			return true
		}
	}
	if cd := r.Schema.Types[cond]; cd != nil && cd.Kind == ast.Union {
		for _, t := range cd.Types {
			if t == obj.Name {
				return true
			}
		}
	}
	return false
}

func (r *Ref) related(a, b string) bool {
	if a == b || a == "" || b == "" {
		return true
	}
	da, db := r.Schema.Types[a], r.Schema.Types[b]
	if da == nil || db == nil {
		return true
	}
	for _, i := range da.Interfaces {
		if i == b {
			return true
		}
	}
	for _, i := range db.Interfaces {
		if i == a {
			return true
		}
	}
	return false
}

// deferOf returns (deferred, label) for a fragment's directives.
func (r *Ref) deferOf(dirs ast.DirectiveList) (bool, string) {
	d := dirs.ForName("defer")
	if d == nil {
		return false, ""
	}
	on, label := true, ""
	for _, a := range d.Arguments {
		v, err := a.Value.Value(r.Vars)
		if err != nil {
			continue
		}
		switch a.Name {
		case "if":
			on, _ = v.(bool)
		case "label":
			label, _ = v.(string)
		}
	}
	return on, label
}

func (r *Ref) collect(obj *ast.Definition, sel ast.SelectionSet, visited map[string]bool, groups *[]*group, cond string) {
	r.collectD(obj, sel, visited, groups, cond, false, "", nil)
}

func (r *Ref) collectD(obj *ast.Definition, sel ast.SelectionSet, visited map[string]bool, groups *[]*group, cond string, dfr bool, dlabel string, dlabels []string) {
	for _, s := range sel {
		switch s := s.(type) {
		case *ast.Field:
			if !r.include(s.Directives) {
				continue
			}
			key := s.Alias
			if key == "" {
				key = s.Name
			}
			// gqlgen compares the definition the field was validated against
			if fc := fieldCond(s); fc != "" {
				cond = fc
			}
			var g *group
			for _, x := range *groups {
				if x.key == key {
					if r.Quirks.NoMergeAcrossUnrelatedConditions && !r.related(x.cond, cond) {
						continue
					}
					g = x
					break
				}
			}
			if g == nil {
				g = &group{key: key, cond: cond}
				*groups = append(*groups, g)
			}
			g.fields = append(g.fields, s)
			if dfr {
				g.deferred, g.label = true, dlabel
				g.labels = append(g.labels, dlabels...)
			}
		case *ast.InlineFragment:
			if !r.include(s.Directives) {
				continue
			}
			if !r.typeApplies(obj, s.TypeCondition) {
				continue
			}
			c := cond
			if s.TypeCondition != "" {
				c = s.TypeCondition
			}
			d2, l2, ls2 := dfr, dlabel, dlabels
			if on, lb := r.deferOf(s.Directives); on {
				d2, l2 = true, lb
				ls2 = append(append([]string{}, dlabels...), lb)
			}
			r.collectD(obj, s.SelectionSet, visited, groups, c, d2, l2, ls2)
		case *ast.FragmentSpread:
			if r.Quirks.SpreadVisitedBeforeDirective {
				if visited[s.Name] {
					continue
				}
				visited[s.Name] = true
				if !r.include(s.Directives) {
					continue
				}
			} else {
				if !r.include(s.Directives) {
					continue
				}
				if visited[s.Name] {
					continue
				}
				visited[s.Name] = true
			}
			f := r.Doc.Fragments.ForName(s.Name)
			if f == nil || !r.typeApplies(obj, f.TypeCondition) {
				continue
			}
			d2, l2, ls2 := dfr, dlabel, dlabels
			if on, lb := r.deferOf(s.Directives); on {
				d2, l2 = true, lb
				ls2 = append(append([]string{}, dlabels...), lb)
			}
			r.collectD(obj, f.SelectionSet, visited, groups, f.TypeCondition, d2, l2, ls2)
		}
	}
}

// fieldCond returns the definition the field was validated against (its parent type in
// the document), which is what gqlgen keeps as ObjectDefinition.
func fieldCond(f *ast.Field) string {
	if f.ObjectDefinition != nil {
		return f.ObjectDefinition.Name
	}
	return ""
}

func (r *Ref) selectionSet(obj *ast.Definition, objPath string, sel ast.SelectionSet) (*Val, bool) {
	var groups []*group
	r.collect(obj, sel, map[string]bool{}, &groups, obj.Name)
	out := &Val{Kind: 'o'}
	invalid := false
	seenLabel := map[string]bool{}
	for _, g := range groups {
		if !g.deferred {
			continue
		}
		for _, lb := range g.labels {
			if !seenLabel[lb] {
				seenLabel[lb] = true
				r.Groups = append(r.Groups, objPath+"|"+lb)
			}
		}
	}
	for _, g := range groups {
		f := g.fields[0]
		path := joinPath(objPath, g.key)
		if f.Name == "__typename" {
			out.Keys = append(out.Keys, g.key)
			out.Vals = append(out.Vals, &Val{Kind: 's', Raw: strconv.Quote(obj.Name)})
			continue
		}
		fd := obj.Fields.ForName(f.Name)
		if fd == nil {
			panic(fmt.Sprintf("ref: no field %s on %s", f.Name, obj.Name))
		}
		v := r.field(obj, objPath, path, fd, g.fields)
		if v.Kind == 'n' && fd.Type.NonNull {
			invalid = true
			if !g.deferred {
				if r.InvalidOwn == nil {
					r.InvalidOwn = map[string]bool{}
				}
				r.InvalidOwn[objPath] = true
			}
		}
		out.Keys = append(out.Keys, g.key)
		out.Vals = append(out.Vals, v)
	}
	if invalid {
		return Null, false
	}
	return out, true
}

func (r *Ref) isAbstract(name string) bool {
	d := r.Schema.Types[name]
	return d != nil && (d.Kind == ast.Interface || d.Kind == ast.Union)
}

func (r *Ref) isLeaf(name string) bool {
	d := r.Schema.Types[name]
	return d == nil || d.Kind == ast.Scalar || d.Kind == ast.Enum
}

// Nilable tells whether the Go value bound to GraphQL type t can be nil under gqlgen's
// default binding: everything except non-null leaves.
func (r *Ref) Nilable(t *ast.Type) bool {
	if !t.NonNull {
		return true
	}
	if t.Elem != nil {
		// a nil Go slice at a non-null list position is the empty list, not a null
		return false
	}
	return !r.isLeaf(t.NamedType)
}

func (r *Ref) field(obj *ast.Definition, objPath, path string, fd *ast.FieldDefinition, fields []*ast.Field) *Val {
	// argument coercion through the fault-capable custom scalar happens first (field context)
	for _, a := range fields[0].Arguments {
		ad := fd.Arguments.ForName(a.Name)
		if ad == nil {
			continue
		}
		if ad.Type.Elem != nil && ad.Type.Elem.NamedType == "Boom" {
			// a list of the scalar: the elements are unmarshalled in order, the first failure ends it
			v, err := a.Value.Value(r.Vars)
			l, isList := v.([]any)
			if err != nil || !isList {
				continue
			}
			for i, e := range l {
				key := "unmarshal:" + fmt.Sprint(e)
				r.Calls = append(r.Calls, key)
				r.Positions = append(r.Positions, Position{Path: key, Kind: "unmarshal", Nilable: false})
				switch r.Plan.Get(key) {
				case "error":
					r.addErr(fmt.Sprintf("%s.%s[%d]", path, a.Name, i), "coercion")
					r.errAt[path] = true
					return Null
				case "panic":
					r.addErr(path, "panic")
					return Null
				}
			}
			continue
		}
		if ad.Type.NamedType != "Boom" {
			continue
		}
		v, err := a.Value.Value(r.Vars)
		if err != nil || v == nil {
			continue
		}
		key := "unmarshal:" + fmt.Sprint(v)
		r.Calls = append(r.Calls, key)
		r.Positions = append(r.Positions, Position{Path: key, Kind: "unmarshal", Nilable: false})
		switch r.Plan.Get(key) {
		case "error":
			r.addErr(path+"."+a.Name, "coercion")
			r.errAt[path] = true
			return Null
		case "panic":
			r.addErr(path, "panic")
			return Null
		}
	}
	if r.Intercept {
		r.Positions = append(r.Positions, Position{Path: "~" + path, Kind: "interceptor"})
		switch r.Plan.Get("~" + path) {
		case "error":
			r.addErr(path, "interceptor")
			return r.nonNullCheck(fd.Type, path, Null)
		case "panic":
			r.addErr(path, "panic")
			return r.nonNullCheck(fd.Type, path, Null)
		}
	}
	// a directive the OPERATION puts on the field (@fq, location FIELD) wraps everything below
	if fields[0].Directives.ForName("fq") != nil {
		r.Calls = append(r.Calls, "%"+path)
		r.Positions = append(r.Positions, Position{Path: "%" + path, Kind: "directive", GQLType: fd.Type.String(), Nilable: true, Object: obj.Name + "." + fd.Name})
		switch r.Plan.Get("%" + path) {
		case "error":
			r.addErr(path, "resolver")
			return r.nonNullCheck(fd.Type, path, Null)
		case "panic":
			r.addErr(path, "panic")
			return r.nonNullCheck(fd.Type, path, Null)
		case "null":
			return r.nonNullCheck(fd.Type, path, Null)
		}
	}
	// schema directive @fd wraps the resolver
	if fd.Directives.ForName("fd") != nil {
		r.Calls = append(r.Calls, "@"+path)
		r.Positions = append(r.Positions, Position{Path: "@" + path, Kind: "directive", GQLType: fd.Type.String(), Nilable: true, Object: obj.Name + "." + fd.Name})
		switch r.Plan.Get("@" + path) {
		case "error":
			r.addErr(path, "resolver")
			return r.nonNullCheck(fd.Type, path, Null)
		case "panic":
			r.addErr(path, "panic")
			return r.nonNullCheck(fd.Type, path, Null)
		case "null":
			return r.nonNullCheck(fd.Type, path, Null)
		}
	}
	outcome := "value"
	r.curField = ""
	if r.IsResolver(obj.Name, fd.Name) {
		r.curField = obj.Name + "." + fd.Name
		r.Calls = append(r.Calls, path+"|"+obj.Name+"."+fd.Name)
		r.Positions = append(r.Positions, Position{Path: path, Kind: "resolver", GQLType: fd.Type.String(), Nilable: r.Nilable(fd.Type), List: fd.Type.Elem != nil, Abstract: fd.Type.Elem == nil && r.isAbstract(fd.Type.NamedType), Object: obj.Name + "." + fd.Name})
		outcome = r.Plan.Get(path)
		switch outcome {
		case "error", "errval", "adderr":
			r.addErr(path, "resolver")
			return r.nonNullCheck(fd.Type, path, Null)
		case "panic":
			r.addErr(path, "panic")
			return r.nonNullCheck(fd.Type, path, Null)
		case "null":
			return r.nonNullCheck(fd.Type, path, Null)
		case "rogue":
			// a value of a Go type the generated type switch does not know: it panics while
			// completing this position
			r.addErr(path, "panic")
			return r.nonNullCheck(fd.Type, path, Null)
		case "typednil":
			if r.Quirks.TypedNilNoError {
				return Null
			}
			return r.nonNullCheck(fd.Type, path, Null)
		}
	}
	prev := r.fillMode
	r.fillMode = false
	if !r.IsResolver(obj.Name, fd.Name) && !r.isLeaf(namedTypeOf(fd.Type)) {
		// an object-valued STRUCT field: filled by the harness unless the object it sits on
		// came out of a struct field itself
		if r.structFilled[objPath] {
			r.fillMode = prev
			return r.nonNullCheck(fd.Type, path, Null)
		}
		r.fillMode = true
	}
	v, _ := r.complete(fd.Type, objPath, path, fd.Name, outcome, fields)
	r.fillMode = prev
	return v
}

func (r *Ref) identOf(objPath string) string {
	if id, ok := r.ident[objPath]; ok {
		return id
	}
	return objPath
}

func namedTypeOf(t *ast.Type) string {
	for t.Elem != nil {
		t = t.Elem
	}
	return t.NamedType
}

// nonNullCheck applies the non-null rule at path for a value already known.
func (r *Ref) nonNullCheck(t *ast.Type, path string, v *Val) *Val {
	if v.Kind == 'n' && t.NonNull && !r.errAt[path] {
		r.addErr(path, "nonnull")
	}
	return v
}

// complete returns the completed value and whether a null result is a *propagated* null
// (caused by a failure below, which has already been reported) rather than a null
// produced at this position.
func (r *Ref) complete(t *ast.Type, objPath, path, fieldName, outcome string, fields []*ast.Field) (*Val, bool) {
	if t.NonNull {
		inner := *t
		inner.NonNull = false
		v, prop := r.complete(&inner, objPath, path, fieldName, outcome, fields)
		if v.Kind == 'n' && !prop {
			r.nonNullCheck(t, path, v)
		}
		return v, v.Kind == 'n'
	}
	if t.Elem != nil {
		n := 2
		switch outcome {
		case "len0":
			n = 0
		case "len1":
			n = 1
		case "len3":
			n = 3
		}
		out := &Val{Kind: 'l'}
		bad := false
		listField := r.curField
		for i := 0; i < n; i++ {
			ep := elemPath(path, i)
			var ev *Val
			leaf := r.isLeaf(t.Elem.NamedType) && t.Elem.Elem == nil
			// leaf elements can be null only where the Go element type can express it:
			// nullable elements ([]*string) and Time (the zero time marshals to null)
			if leaf && t.Elem.NonNull && t.Elem.NamedType != "Time" {
				ev, _ = r.complete(t.Elem, objPath, ep, fieldName, "value", fields)
			} else {
				abstract := t.Elem.Elem == nil && r.isAbstract(t.Elem.NamedType)
				// a nil inner slice at a non-null list position is the empty list, not a null
				innerNonNullList := t.Elem.Elem != nil && t.Elem.NonNull
				r.Positions = append(r.Positions, Position{Path: ep, Kind: "element", GQLType: t.Elem.String(), Nilable: !innerNonNullList && !r.fillMode, Abstract: abstract, Object: listField, Depth: strings.Count(ep[len(listPathOf(ep)):], "[")})
				switch eo := r.Plan.Get(ep); eo {
				case "null":
					if leaf && r.Quirks.ScalarElemErrorAtList {
						ev = Null
						if t.Elem.NonNull && !r.errAt[path] {
							r.addErr(path, "nonnull")
						}
					} else {
						ev = r.nonNullCheck(t.Elem, ep, Null)
					}
				case "rogue":
					r.addErr(ep, "panic")
					ev = Null
				case "alt":
					ev, _ = r.complete(t.Elem, objPath, ep, fieldName, "alt", fields)
				default:
					ev, _ = r.complete(t.Elem, objPath, ep, fieldName, "value", fields)
				}
			}
			if ev.Kind == 'n' && t.Elem.NonNull {
				bad = true
			}
			out.Elems = append(out.Elems, ev)
			// completing an element may have run other fields: later elements (and inner
			// lists) still belong to this list's field
			r.curField = listField
		}
		if bad {
			return Null, true
		}
		return out, false
	}
	if r.isLeaf(t.NamedType) {
		base := parentOf(path)
		if r.curField == "" {
			// a struct field: its value was fixed when the harness built the object
			base = r.identOf(base)
		}
		return &Val{Kind: 's', Raw: LeafJSON(t.NamedType, base, fieldName, path)}, false
	}
	// object / abstract
	concrete := t.NamedType
	if r.isAbstract(concrete) {
		concrete = r.DefaultType
		if outcome == "alt" {
			concrete = r.AltType
		}
	}
	var sub ast.SelectionSet
	for _, f := range fields {
		sub = append(sub, f.SelectionSet...)
	}
	if r.fillMode {
		r.structFilled[path] = true
		r.ident[path] = joinPath(r.identOf(objPath), fieldName) + path[len(listPathOf(path)):]
	}
	v, ok := r.selectionSet(r.Schema.Types[concrete], path, sub)
	return v, !ok
}

// listPathOf strips the trailing [i][j].. indices of an element path.
func listPathOf(ep string) string {
	for strings.HasSuffix(ep, "]") {
		ep = ep[:strings.LastIndexByte(ep, '[')]
	}
	return ep
}

func parentOf(path string) string {
	// strip the last ".key" (list indices stay with the parent object path)
	i := strings.LastIndexByte(path, '.')
	if i < 0 {
		return ""
	}
	return path[:i]
}

// LeafJSON fabricates the value of a leaf field deterministically from the path of the
// object it sits on and the schema field name. The universal resolver uses the same
// function, so reference and implementation agree on every leaf.
func LeafJSON(typeName, objPath, field, path string) string {
	switch typeName {
	case "Time":
		return strconv.Quote(LeafTime.Format(time.RFC3339Nano))
	case "Color":
		return strconv.Quote(ColorOf(objPath, field))
	case "Int":
		return strconv.Itoa(LeafInt(objPath, field))
	case "Boolean":
		return "true"
	case "Float":
		return strconv.Itoa(LeafInt(objPath, field)) + ".5"
	default:
		return strconv.Quote(LeafString(objPath, field))
	}
}

// LeafTime is the value of every Time leaf.
var LeafTime = time.Date(2021, 1, 2, 3, 4, 5, 0, time.UTC)

func LeafString(objPath, field string) string { return field + "@" + objPath }

func LeafInt(objPath, field string) int {
	h := 7
	for _, c := range objPath + "/" + field {
		h = (h*31 + int(c)) % 9973
	}
	return h
}

package exech

import (
	"context"
	"errors"
	"fmt"
	"io"
	"strconv"

	"github.com/99designs/gqlgen/graphql"
)

// CurEnv is the Env of the running execution (set by Shared); custom scalar methods have
// no context argument, so they reach the plan through it.
var CurEnv func() *Env

// Boom is the probe's custom scalar: its marshaler / unmarshaler are fault points.
//
//	plan "marshal:<value>"   = panic     -> MarshalGQL panics (serialization-time panic)
//	plan "unmarshal:<value>" = error | panic
type Boom string

func (b Boom) MarshalGQL(w io.Writer) {
	if e := CurEnv(); e != nil {
		e.Event("marshal:" + string(b))
		if e.Plan.Get("marshal:"+string(b)) == "panic" {
			panic("PM@" + string(b))
		}
	}
	io.WriteString(w, strconv.Quote(string(b)))
}

func (b *Boom) UnmarshalGQL(v any) error {
	s := fmt.Sprint(v)
	if e := CurEnv(); e != nil {
		e.logCall("unmarshal:" + s)
		switch e.Plan.Get("unmarshal:" + s) {
		case "error":
			return errors.New("EU@" + s)
		case "panic":
			panic("PU@" + s)
		}
	}
	*b = Boom(s)
	return nil
}

// FaultExt is a field-interceptor extension whose calls are fault points:
// plan "~<path>" = error | panic (the resolver below is then not reached).
type FaultExt struct{ Cur func() *Env }

var _ graphql.FieldInterceptor = FaultExt{}

func (FaultExt) ExtensionName() string                   { return "verif-fault" }
func (FaultExt) Validate(graphql.ExecutableSchema) error { return nil }
func (f FaultExt) InterceptField(ctx context.Context, next graphql.Resolver) (any, error) {
	e := f.Cur()
	fc := graphql.GetFieldContext(ctx)
	if e == nil || fc == nil || !e.Intercept {
		return next(ctx)
	}
	path := fc.Path().String()
	switch e.Plan.Get("~" + path) {
	case "error":
		return nil, errors.New("EI@" + path)
	case "panic":
		panic("PI@" + path)
	}
	return next(ctx)
}

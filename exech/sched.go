package exech

import (
	"bytes"
	"context"
	"encoding/json"
	"fmt"
	"net/http/httptest"
	"strings"
	"time"

	"github.com/99designs/gqlgen/graphql/handler"
	"github.com/99designs/gqlgen/graphql/handler/transport"

	"verif/explore"
	"verif/rig"
	"verif/vrt"
)

func init() {
	schedProps["C06"] = func(s *Shared, tier string) { s.schedMain("C06", tier) }
	schedProps["C05"] = func(s *Shared, tier string) { s.schedMain("C05", tier) }
	schedProps["C04"] = func(s *Shared, tier string) { s.schedMain("C04", tier) }
}

// SchedCase is a scenario of a scheduler-explored property.
type SchedCase struct {
	Case
	Transport string `json:"transport,omitempty"` // "" = response function called directly
	Name      string `json:"name"`
	Bound     *int   `json:"bound,omitempty"` // overrides the property's deviation bound
	// DefaultOnly: structural scenario, only the default schedule is run
	DefaultOnly bool `json:"default_only,omitempty"`
	// Invalid: the operation is expected to be REJECTED before execution (not parsed by the harness)
	Invalid bool `json:"invalid,omitempty"`
}

func planOf(kv ...string) Plan {
	p := Plan{}
	for i := 0; i+1 < len(kv); i += 2 {
		p[kv[i]] = kv[i+1]
	}
	return p
}

func c06Cases(tier string) []SchedCase {
	var out []SchedCase
	two := 2
	if tier == "thorough" {
		two = 3
	}
	add := func(q string, p Plan) {
		out = append(out, SchedCase{Case: Case{Op: Op{Text: q}, Plan: p, Yield: true}, Name: q + " | " + p.Key()})
	}
	add(`{t{name req kid{name}}}`, nil)
	add(`{t{name req kid{name}}}`, planOf("t.name", "error", "t.kid.name", "error"))
	add(`{t{req name kid{name}}}`, planOf("t.req", "error"))
	add(`{tReq{kidReq{id} name}}`, planOf("tReq.kidReq", "null"))
	add(`{tReq{req name kid{name}}}`, planOf("tReq.req", "error"))
	add(`{ts{name req}}`, nil)
	add(`{ts{name req}}`, planOf("ts[0].req", "error", "ts[1].name", "error"))
	add(`{t{kidsReq{req}}}`, planOf("t.kidsReq[1].req", "error"))
	add(`{t{kids{name} ints}}`, planOf("t.kids[0]", "null"))
	add(`{t{req name kid{name}}}`, planOf("t.req", "error", "t.name", "error", "t.kid.name", "error"))
	add(`{t{kidReq{id} name}}`, planOf("t.kidReq", "null", "t.name", "error"))
	// a failure reported through graphql.AddError with a nil result, next to a failing sibling
	add(`{t{kidReq{id} name}}`, planOf("t.kidReq", "adderr", "t.name", "error"))
	add(`{tReq{kidReq{id} req name}}`, planOf("tReq.kidReq", "adderr", "tReq.req", "error"))
	add(`{ts{kidReq{id}}}`, planOf("ts[0].kidReq", "adderr", "ts[1].kidReq", "adderr"))
	// one input-object variable (defaulted fields omitted) read by several concurrent fields
	out = append(out, SchedCase{Case: Case{Op: Op{Text: `query($i:In){t{x:inp(in:$i) y:inp(in:$i)}}`, Vars: map[string]any{"i": map[string]any{"b": "x"}}}, Yield: true}, Name: "shared input-object variable"})
	// two panics presented by gqlgen's own DefaultRecover (no recover function configured)
	out = append(out, SchedCase{Case: Case{Op: Op{Text: `{t{name req}}`}, Plan: planOf("t.name", "panic", "t.req", "panic"), Yield: true, DefaultRecover: true}, Name: "{t{name req}} | both panic, default recover"})
	out = append(out, SchedCase{Case: Case{Op: Op{Text: `{ts{name}}`}, Plan: planOf("ts[0].name", "panic", "ts[1].name", "panic"), Yield: true, DefaultRecover: true}, Name: "{ts{name}} | both elements panic, default recover"})
	// mirrored paths: an error at one alias, a silent null at the other
	add(`{x:t{kidReq{id}} y:t{kidReq{id}}}`, planOf("x.kidReq", "error", "y.kidReq", "null"))
	add(`{x:tReq{id} y:tReq{id}}`, planOf("x", "error", "y", "null"))
	add(`{ts{x:peerReq{id}}}`, planOf("ts[0].x", "error", "ts[1].x", "null"))
	// the request context ends mid-flight while resolvers keep returning their values
	for _, q := range []string{`{t{name req kid{name req}}}`, `{ts{name kid{req}}}`, `{tReq{kidReq{req name}}}`} {
		out = append(out, SchedCase{Case: Case{Op: Op{Text: q}, Yield: true, Cancel: true, IgnoreCancel: true}, Name: q + " | cancel ignored by resolvers"})
	}
	// ... and failures recorded after the context ended are still reported
	out = append(out, SchedCase{Case: Case{Op: Op{Text: `{t{name req}}`}, Plan: planOf("t.name", "error"), Yield: true, Cancel: true, IgnoreCancel: true}, Name: "{t{name req}} | t.name=error; cancel ignored by resolvers"})
	out = append(out, SchedCase{Case: Case{Op: Op{Text: `{tReq{kidReq{req}}}`}, Plan: planOf("tReq.kidReq.req", "panic"), Yield: true, Cancel: true, IgnoreCancel: true}, Name: "{tReq{kidReq{req}}} | panic; cancel ignored by resolvers"})
	// an object type with exactly ONE resolver field, selected twice under aliases, both failing
	add(`{one{a:only b:only}}`, planOf("one.a", "error", "one.b", "error"))
	add(`{one{a:only b:only c:only}}`, planOf("one.a", "error", "one.c", "panic"))
	// every resolver registers a response extension
	out = append(out, SchedCase{Case: Case{Op: Op{Text: `{t{name req} ts{name}}`}, Yield: true, RegisterExt: true}, Name: "{t{name req} ts{name}} | extensions registered by every resolver", Bound: &two})
	// a list whose elements have different concrete types, selecting the same response key
	// through a shared occurrence and through type-specific fragments
	add(`{peers{peer{id __typename x_id:id} ... on T{peer{... on T{name}}} ... on S{peer{... on S{title}}}}}`, planOf("peers[1]", "alt"))
	add(`{peers{peer{id __typename x_id:id} ... on T{peer{... on T{name}}} ... on S{peer{... on S{title}}}}}`, planOf("peers[0]", "alt", "peers[0].peer", "alt"))
	add(`{t{times optStrs ints}}`, planOf("t.times[1]", "null", "t.optStrs[0]", "null"))
	add(`mutation{m1{req name} m2{name}}`, planOf("m1.req", "error"))
	add(`mutation{m1{name req kid{name}} m2{name}}`, planOf("m1.req", "error"))
	add(`mutation{m1{name req} m2{name} m3}`, nil)
	add(`mutation{m1{name} m3 m2{req}}`, planOf("m3", "error"))
	if tier == "thorough" {
		add(`{t{name req guarded kid{name req}} str}`, planOf("@t.guarded", "error"))
		add(`{ts{kids{name}}}`, planOf("ts", "len3"))
		add(`{t{peerReq{id ... on T{name}} u{... on S{title}}}}`, planOf("t.u", "alt"))
		add(`{node{... on T{name req}} u{... on T{name}}}`, nil)
	}
	return out
}

func c05Cases(tier string) []SchedCase {
	var out []SchedCase
	one, two := 1, 2
	add := func(tr, q string, p Plan) {
		var b *int
		if tr == "ws" {
			// the websocket session adds many scheduling points: one deviation fewer
			b = &one
			if tier == "thorough" {
				b = &two
			}
		}
		out = append(out, SchedCase{Case: Case{Op: Op{Text: q}, Plan: p, Yield: true, Cancel: true}, Transport: tr, Name: tr + " " + q + " | " + p.Key(), Bound: b})
	}
	trs := []string{"", "post", "ws"}
	if tier == "thorough" {
		trs = append(trs, "sse", "mixed", "get")
	}
	zero := 0
	// structural: nested fan-out at and above the worker limit (default schedule suffices)
	for _, p := range []Plan{nil, planOf("t.kidsReq", "len3"), planOf("t.kidsReq[0].kids", "len3")} {
		out = append(out, SchedCase{Case: Case{Op: Op{Text: `{t{kidsReq{kids{id}}}}`}, Plan: p, Yield: true}, Name: "nested lists " + p.Key(), DefaultOnly: true})
	}
	out = append(out, SchedCase{Case: Case{Op: Op{Text: `{t{kidsReq{kids{id kids{id}}}}}`}, Plan: planOf("t.kidsReq", "len3"), Yield: true}, Name: "nested lists three levels", DefaultOnly: true})
	out = append(out, SchedCase{Case: Case{Op: Op{Text: `{ts{kidsReq{kids{id}}}}`}, Plan: planOf("ts", "len3"), Yield: true}, Name: "nested lists under ts", DefaultOnly: true})
	// a serialization-time panic on every transport: the request ends and nothing is left running
	for _, tr := range []string{"post", "sse", "mixed", "ws"} {
		out = append(out, SchedCase{Case: Case{Op: Op{Text: `{t{boom name}}`}, Plan: planOf("marshal:boom@t", "panic"), Yield: true, Cancel: true}, Transport: tr, Name: tr + " marshal panic", Bound: &zero})
		out = append(out, SchedCase{Case: Case{Op: Op{Text: `{t{id ... @defer{boom}}}`}, Plan: planOf("marshal:boom@t", "panic"), Yield: true, Cancel: true}, Transport: tr, Name: tr + " marshal panic in deferred payload", Bound: &zero})
	}
	// a failing non-deferred non-null field next to a deferred fragment: the object is null,
	// its groups are not started - and nothing may wait for them
	for _, tr := range []string{"", "sse", "mixed", "ws"} {
		out = append(out, SchedCase{Case: Case{Op: Op{Text: `{t{kidReq{id} ... @defer{name}}}`}, Plan: planOf("t.kidReq", "error"), Yield: true, Cancel: false}, Transport: tr, Name: tr + " failing sibling of a deferred fragment", Bound: &zero})
		out = append(out, SchedCase{Case: Case{Op: Op{Text: `{ts{req ... @defer{name}}}`}, Plan: planOf("ts[1].req", "error"), Yield: true, Cancel: false}, Transport: tr, Name: tr + " failing list element with a deferred fragment", Bound: &zero})
		// deferred groups that belong to list elements outlive the list's own completion
		out = append(out, SchedCase{Case: Case{Op: Op{Text: `{ts{id ... @defer{name}}}`}, Yield: true, Cancel: false}, Transport: tr, Name: tr + " deferred fragment in every list element, no cancellation", Bound: map[bool]*int{true: &one, false: &zero}[tr == ""]})
	}
	// requests REJECTED before execution leave nothing running either
	for _, tr := range []string{"post", "sse", "mixed", "ws"} {
		out = append(out, SchedCase{Case: Case{Op: Op{Text: `{nosuchfield}`}, Yield: true, Cancel: true}, Transport: tr, Invalid: true, Name: tr + " rejected operation", Bound: &one})
	}
	// resolvers that return their values although the context was cancelled
	for _, q := range []string{`{t{name req kid{name}}}`, `{ts{name req}}`} {
		out = append(out, SchedCase{Case: Case{Op: Op{Text: q}, Yield: true, Cancel: true, IgnoreCancel: true}, Name: q + " | cancel ignored by resolvers", Bound: &one})
	}
	// an element-level panic (a Go type the generated type switch does not know) in a list
	// under a worker limit: every slot and every wait-group count is accounted for
	out = append(out, SchedCase{Case: Case{Op: Op{Text: `{peers{id peer{id}} str}`}, Plan: planOf("peers[0]", "rogue"), Yield: true}, Name: "rogue list element", Bound: &one})
	out = append(out, SchedCase{Case: Case{Op: Op{Text: `{peers{id}}`}, Plan: planOf("peers", "len3", "peers[0]", "rogue", "peers[1]", "rogue"), Yield: true}, Name: "two rogue list elements of three", Bound: &zero})
	// two operations in flight on one websocket connection that the SERVER then closes
	out = append(out, SchedCase{Case: Case{Op: Op{Text: `{t{name}}`}, Yield: true, Cancel: true}, Transport: "ws2", Name: "ws2 {t{name}} | two operations, server-side close", Bound: &one})
	out = append(out, SchedCase{Case: Case{Op: Op{Text: `subscription{tick{id}}`}, Yield: true, Cancel: true}, Transport: "ws2", Name: "ws2 subscription{tick{id}} | two operations, server-side close", Bound: &zero})
	// a websocket session that never initialises (InitTimeout set)
	out = append(out, SchedCase{Case: Case{Op: Op{Text: `{str}`}, Yield: true, Cancel: true}, Transport: "ws-timeout", Name: "ws-timeout silent client"})
	for _, tr := range trs {
		add(tr, `{t{name req}}`, nil)
		add(tr, `{ts{name}}`, nil)
		add(tr, `{ts{name}}`, planOf("ts", "len3"))
		add(tr, `{t{kids{name}}}`, planOf("t.kids", "len1"))
		add(tr, `{t{kidsReq{kids{id}}}}`, planOf("t.kidsReq", "len1"))
		add(tr, `{t{id ... @defer{name}}}`, nil)
		add(tr, `{t{id ... @defer(label:"a"){name} ... @defer(label:"b"){req}}}`, nil)
		if tier == "thorough" {
			add(tr, `{t{kidsReq{kids{id}}}}`, planOf("t.kidsReq[0].kids", "len1"))
			add(tr, `{ts{id ... @defer{name}}}`, nil)
			add(tr, `{t{id ... @defer{kid{id ... @defer{name}}}}}`, nil)
			add(tr, `{t{ints kids{name req}}}`, planOf("t.kids", "len0"))
		}
	}
	return out
}

// c04Cases: fault scenarios that need a transport, several payloads or a second request.
func c04Cases(tier string) []SchedCase {
	var out []SchedCase
	add := func(tr, q string, p Plan, yield bool) {
		out = append(out, SchedCase{Case: Case{Op: Op{Text: q}, Plan: p, Yield: yield, Intercept: true}, Transport: tr, Name: tr + " " + q + " | " + p.Key()})
	}
	// serialization-time panic: only that response fails, with a well-formed error body,
	// and the same server answers the next request
	add("post2", `{t{boom name}}`, planOf("marshal:boom@t", "panic"), false)
	add("post2", `{ts{boom}}`, planOf("marshal:boom@ts[1]", "panic"), false)
	add("post2", `{t{name}}`, planOf("t.name", "panic"), false)
	add("post2", `{argBoom(b:"x") str}`, planOf("unmarshal:x", "panic"), false)
	// the same failures on a websocket connection (the per-operation goroutine of the transport
	// has its own panic handler), and with the recover hook installed per operation
	add("ws", `{t{boom name}}`, planOf("marshal:boom@t", "panic"), false)
	add("ws", `{t{name}}`, planOf("t.name", "panic"), false)
	add("ws", `{t{req}}`, planOf("t.req", "error"), false)
	for _, tr := range []string{"post2", "ws", ""} {
		for _, kv := range [][]string{{`{t{boom name}}`, "marshal:boom@t"}, {`{ts{name}}`, "ts[1].name"}, {`{t{guarded}}`, "@t.guarded"}} {
			if tr != "ws" && strings.HasPrefix(kv[1], "marshal:") {
				// direct runs have no transport to serialize; on POST a serialization-time panic is
				// caught by the server's own handler, which has no operation and uses the server-wide hook
				continue
			}
			out = append(out, SchedCase{Case: Case{Op: Op{Text: kv[0]}, Plan: planOf(kv[1], "panic"), Intercept: true, OpRecover: true}, Transport: tr, Name: tr + " " + kv[0] + " | " + kv[1] + "=panic, per-operation recover hook"})
		}
	}
	// subscription events: a resolver below an event panics / errors
	add("", `subscription{tick{id name}}`, planOf("tick.name", "panic"), true)
	add("", `subscription{tick{id req}}`, planOf("tick.req", "error"), true)
	add("", `subscription{tick{id name}}`, planOf("tick", "panic"), true)
	// deferred groups
	add("", `{t{id ... @defer{name req}}}`, planOf("t.name", "panic"), true)
	add("", `{t{id ... @defer{kid{name}} ... @defer(label:"b"){req}}}`, planOf("t.kid.name", "panic", "t.req", "error"), true)
	add("", `{ts{id ... @defer{name}}}`, planOf("ts[0].name", "panic", "ts[1].name", "panic"), true)
	add("", `{t{id ... @defer{req name}}}`, planOf("t.req", "error"), true)
	add("", `{t{id ... @defer{req name}}}`, planOf("t.req", "panic"), true)
	add("", `{ts{id ... @defer(label:"g"){kidReq{id}}}}`, planOf("ts[1].kidReq", "error"), true)
	// the failing non-null field is NOT deferred, the same object also has a deferred fragment
	add("", `{t{kidReq{id} ... @defer{name}}}`, planOf("t.kidReq", "error"), true)
	add("", `{t{req ... @defer(label:"d"){name kid{id}}}}`, planOf("t.req", "panic"), true)
	add("", `{ts{req ... @defer{name}}}`, planOf("ts[1].req", "error"), true)
	// concurrent siblings and list element goroutines panicking together
	add("", `{t{name req kid{name}}}`, planOf("t.name", "panic", "t.kid.name", "panic"), true)
	add("", `{ts{name req}}`, planOf("ts[0].req", "panic", "ts[1].name", "panic"), true)
	add("", `{t{kids{name} kidsReq{req}}}`, planOf("t.kids[0].name", "panic", "t.kidsReq[1].req", "panic"), true)
	add("", `{t{guarded name}}`, planOf("@t.guarded", "panic", "~t.name", "panic"), true)
	// a panic at the list-element level (a Go type the generated type switch does not know)
	add("", `{peers{id peer{id}} str}`, planOf("peers[0]", "rogue"), true)
	add("", `{peers{id} ts{name}}`, planOf("peers[1]", "rogue", "ts[0].name", "panic"), true)
	return out
}

type schedInst struct {
	*Inst
	sc   SchedCase
	prop string
	rw   *rig.RW
	rw2  *rig.RW
	wsConn *rig.Conn
	// response of transports
	handlerDone bool
}

func (si *schedInst) Body() {
	if si.sc.Transport == "" {
		if si.C.DefaultRecover {
			silenced(si.Inst.Body) // DefaultRecover prints a stack trace per panic
		} else {
			si.Inst.Body()
		}
		return
	}
	in := si.Inst
	s := in.S
	in.Env = &Env{Plan: in.C.Plan, DefaultImpl: s.W.DefaultImpl, AltImpl: s.W.AltImpl, RogueImpl: s.W.RogueImpl, Yield: in.C.Yield, HonourCancel: in.C.Cancel && !in.C.IgnoreCancel, Intercept: in.C.Intercept, MapFields: s.mapFields, RegisterExt: in.C.RegisterExt}
	s.cur = in.Env
	ctx, cancel := context.WithCancel(context.Background())
	if in.C.Cancel {
		vrt.AddEnv(&vrt.EnvEvent{Name: "cancel-request", Enabled: func() bool { return !in.Done }, Fire: func() { in.Cancelled = true; cancel() }})
	}
	srv := handler.New(s.es)
	si.rw = rig.NewRW()
	body, _ := json.Marshal(map[string]any{"query": in.C.Op.Text, "variables": in.C.Op.Vars})
	if si.sc.Transport == "post2" && strings.HasPrefix(in.C.Op.Text, "{") {
		// a NAMED operation selected by operationName: whatever the transport keeps of this
		// request would show in the next one, which sends neither
		body, _ = json.Marshal(map[string]any{"query": "query Boom" + in.C.Op.Text, "operationName": "Boom", "variables": in.C.Op.Vars})
	}
	req := httptest.NewRequest("POST", "/query", bytes.NewReader(body))
	req.Header.Set("Content-Type", "application/json")
	switch si.sc.Transport {
	case "post", "post2":
		srv.AddTransport(transport.POST{})
		srv.Use(FaultExt{Cur: func() *Env { return s.cur }})
		in.InstallRecover(srv.SetRecoverFunc, srv.Use)
	case "get":
		srv.AddTransport(transport.GET{})
		req = httptest.NewRequest("GET", "/query?query="+urlEscape(in.C.Op.Text), nil)
	case "sse":
		srv.AddTransport(transport.SSE{KeepAlivePingInterval: 10 * time.Second})
		req.Header.Set("Accept", "text/event-stream")
	case "mixed":
		srv.AddTransport(transport.MultipartMixed{})
		req.Header.Set("Accept", "multipart/mixed")
	}
	if si.prop == "C04" && si.sc.Transport == "ws" {
		srv.Use(FaultExt{Cur: func() *Env { return s.cur }})
		in.InstallRecover(srv.SetRecoverFunc, srv.Use)
	}
	if si.sc.Transport == "ws" || si.sc.Transport == "ws-timeout" || si.sc.Transport == "ws2" {
		si.serveWebsocket(ctx, srv, body)
		in.Done = true
		cancel()
		return
	}
	req = req.WithContext(ctx)
	srv.ServeHTTP(si.rw, req)
	if si.sc.Transport == "post2" {
		// the process keeps serving: a second, fault-free request on the same server
		in.Env.Plan = Plan{}
		si.rw2 = rig.NewRW()
		b2, _ := json.Marshal(map[string]any{"query": "{str}"})
		r2 := httptest.NewRequest("POST", "/query", bytes.NewReader(b2)).WithContext(ctx)
		r2.Header.Set("Content-Type", "application/json")
		srv.ServeHTTP(si.rw2, r2)
	}
	in.Done = true
	cancel() // net/http cancels the request context when the handler returns
}

func urlEscape(s string) string {
	var b strings.Builder
	for i := 0; i < len(s); i++ {
		c := s[i]
		if c >= 'a' && c <= 'z' || c >= 'A' && c <= 'Z' || c >= '0' && c <= '9' {
			b.WriteByte(c)
		} else {
			fmt.Fprintf(&b, "%%%02X", c)
		}
	}
	return b.String()
}

func (si *schedInst) Obs() string {
	if si.rw != nil {
		return fmt.Sprintf("%d|%s|%v", si.rw.Status, si.rw.Buf.String(), si.Inst.sortedCalls())
	}
	return si.Inst.Obs()
}

func (si *schedInst) Check(x *explore.Exec) (string, string) {
	switch si.prop {
	case "C06":
		if si.Cancelled && strings.HasPrefix(si.S.W.Config, "worker-limit") {
			// with a worker limit the generated code itself observes cancellation
			// (semaphore acquisition fails): the response legitimately differs
			return "", ""
		}
		sig, msg := si.Inst.CheckSemantics(x)
		if sig != "" {
			return sig, msg
		}
		if si.Doc.Operations[0].Operation == "mutation" {
			if m := si.mutationSerial(); m != "" {
				return "mutation-roots-overlap", m
			}
		}
		return "", ""
	case "C05":
		return si.checkTermination(x)
	case "C04":
		sig, msg := si.checkFaultScenario(x)
		if sig == "" && si.sc.Transport == "" && strings.Contains(si.C.Op.Text, "@defer") {
			// the payloads of a faulting deferred group must still fold to the plain result
			if dsig, dmsg := si.checkDefer(x); dsig != "" && !si.S.deferKnown(dsig) {
				return dsig, dmsg
			}
		}
		return sig, msg
	case "C13":
		return si.checkDefer(x)
	}
	return "", ""
}

// checkFaultScenario: containment of injected faults in transport / multi-payload scenarios.
func (si *schedInst) checkFaultScenario(x *explore.Exec) (string, string) {
	switch x.Out.Kind {
	case "crash":
		return "crash:" + firstLine(x.Out.CrashVal), x.Out.Crash
	case "blocked":
		return "hang", fmt.Sprintf("blocked: %v", x.Out.Blocked)
	case "horizon":
		return "horizon", "step horizon reached"
	}
	injected := 0
	for _, o := range si.C.Plan {
		if o == "panic" || o == "rogue" {
			injected++
		}
	}
	if si.Env.WrongHook > 0 {
		return "recover-hook-wrong", fmt.Sprintf("the server-wide recover hook ran %d times although the operation carries its own", si.Env.WrongHook)
	}
	if si.sc.Transport == "ws" {
		// one operation on a websocket connection: the frames are well-formed, the operation ends
		// with `complete` after its payload or with one `error` frame, the hook ran once per panic
		out := si.wsConn.Out
		if i := bytes.Index(out, []byte("\r\n\r\n")); i >= 0 {
			out = out[i+4:]
		}
		frames, _, err := rig.ParseServerFrames(out)
		if err != nil {
			return "ws:bad-frame", err.Error()
		}
		var kinds []string
		nerr := 0
		for _, f := range frames {
			if f.Op != rig.OpText {
				continue
			}
			var m struct {
				Type    string          `json:"type"`
				ID      string          `json:"id"`
				Payload json.RawMessage `json:"payload"`
			}
			if err := json.Unmarshal(f.Payload, &m); err != nil {
				return "ws:frame-not-json", string(f.Payload)
			}
			kinds = append(kinds, m.Type)
			switch m.Type {
			case "next":
				var r struct{ Errors []any }
				json.Unmarshal(m.Payload, &r)
				nerr += len(r.Errors)
			case "error":
				var es []any
				json.Unmarshal(m.Payload, &es)
				nerr += len(es)
			}
		}
		seq := strings.Join(kinds, ",")
		if seq != "connection_ack,next,complete" && seq != "connection_ack,error" && seq != "connection_ack,error,complete" {
			return "ws:frame-sequence", seq
		}
		if nerr != 1 {
			return "ws:error-count", fmt.Sprintf("want exactly one error for one injected failure, got %d (%s)", nerr, seq)
		}
		if si.Env.Panics != injected {
			return "recover-hook-count", fmt.Sprintf("recover hook ran %d times for %d injected panics", si.Env.Panics, injected)
		}
		return "", ""
	}
	if si.sc.Transport == "post2" {
		var body map[string]any
		if err := json.Unmarshal(si.rw.Buf.Bytes(), &body); err != nil {
			return "post:body-not-json", fmt.Sprintf("status %d body %q", si.rw.Status, si.rw.Buf.String())
		}
		errs, _ := body["errors"].([]any)
		if len(errs) != 1 {
			return "post:error-count", fmt.Sprintf("want exactly one error for one injected failure, got %d: %s", len(errs), si.rw.Buf.String())
		}
		if si.Env.Panics != injected {
			return "recover-hook-count", fmt.Sprintf("recover hook ran %d times for %d injected panics", si.Env.Panics, injected)
		}
		for k := range si.C.Plan {
			if strings.HasPrefix(k, "marshal:") && si.rw.Status != 422 {
				return "post:marshal-panic-status", fmt.Sprintf("serialization-time panic answered with status %d: %s", si.rw.Status, si.rw.Buf.String())
			}
		}
		var b2 struct {
			Data   map[string]any `json:"data"`
			Errors []any          `json:"errors"`
		}
		if err := json.Unmarshal(si.rw2.Buf.Bytes(), &b2); err != nil || si.rw2.Status != 200 || b2.Data["str"] != "str@" || len(b2.Errors) != 0 {
			return "post:next-request-affected", fmt.Sprintf("second request on the same server: status %d body %s", si.rw2.Status, si.rw2.Buf.String())
		}
		return "", ""
	}
	// direct multi-payload scenarios: panics each recovered exactly once per occurrence, and each
	// payload carries one error per failing position in it
	nerr, npanicErr := 0, 0
	for _, r := range si.Resp {
		if r.Data == "" && len(r.Errors) > 0 {
			// errors-only response (the operation failed before producing data)
		} else if _, err := ParseOrdered(r.Data); err != nil {
			return "payload-not-json", r.Data
		}
		for _, e := range r.Errors {
			nerr++
			if e.Kind == "panic" {
				npanicErr++
			}
			if strings.HasPrefix(e.Kind, "other:") {
				return "unexpected-error", fmt.Sprintf("%v", r.Msgs)
			}
		}
	}
	if si.Env.Panics != npanicErr {
		return "recover-hook-count", fmt.Sprintf("recover hook ran %d times but %d panic errors were reported", si.Env.Panics, npanicErr)
	}
	if len(si.Resp) == 0 {
		return "no-response", "operation produced no payload"
	}
	if si.Doc.Operations[0].Operation == "subscription" {
		// every event is a separate response; a fault below an event fails only that position
		for _, r := range si.Resp {
			want := 0
			for k, o := range si.C.Plan {
				if o == "panic" || o == "error" {
					_ = k
					want++
				}
			}
			if len(r.Errors) != want {
				return "subscription-event-error-count", fmt.Sprintf("event %s has %d errors, want %d (%v)", r.Data, len(r.Errors), want, r.Msgs)
			}
		}
		if si.C.Plan.Get("tick") == "value" && len(si.Resp) != 2 {
			return "subscription-event-count", fmt.Sprintf("source emitted 2 events, %d responses", len(si.Resp))
		}
		for _, r := range si.Resp {
			for _, e := range r.Errors {
				if e.Path != "tick" && !strings.HasPrefix(e.Path, "tick.") {
					return "subscription-error-path", fmt.Sprintf("error path %q is not beneath the subscription field: %v", e.Path, r.Msgs)
				}
			}
		}
		return "", ""
	}
	faults := 0
	for _, o := range si.C.Plan {
		if o == "panic" || o == "error" || o == "rogue" {
			faults++
		}
	}
	// single-payload operations additionally match the reference exactly
	if len(si.Resp) == 1 && si.Resp[0].HasNext == nil {
		si.Inst.DeferredMayBeSkipped = strings.Contains(si.C.Op.Text, "@defer")
		if sig, msg := si.Inst.CheckSemantics(x); sig != "" && !si.S.knownQuirk(sig) {
			return sig, msg
		}
	}
	if nerr != faults {
		var all []string
		for _, r := range si.Resp {
			all = append(all, r.Msgs...)
		}
		return "error-count", fmt.Sprintf("%d injected faults, %d errors reported: %v", faults, nerr, all)
	}
	return "", ""
}

// mutationSerial: every event of root field i precedes every event of root field i+1.
func (si *schedInst) mutationSerial() string {
	var roots []string
	r := &Ref{Schema: si.S.Schema, Doc: si.Doc, Op: si.Doc.Operations[0], Vars: map[string]any{}, Plan: si.C.Plan, IsResolver: si.S.IsResolver}
	var groups []*group
	r.collect(si.S.Schema.Types[si.S.Schema.Mutation.Name], si.Doc.Operations[0].SelectionSet, map[string]bool{}, &groups, "Mutation")
	for _, g := range groups {
		roots = append(roots, g.key)
	}
	idx := func(path string) int {
		for i, k := range roots {
			if path == k || strings.HasPrefix(path, k+".") || strings.HasPrefix(path, k+"[") {
				return i
			}
		}
		return -1
	}
	cur := 0
	for _, e := range si.Env.Events {
		parts := strings.SplitN(e, " ", 2)
		i := idx(parts[1])
		if i < 0 {
			continue
		}
		if i < cur {
			return fmt.Sprintf("event %q of root field %q after root field %q had started: %v", e, roots[i], roots[cur], si.Env.Events)
		}
		cur = i
	}
	return ""
}

func (si *schedInst) checkTermination(x *explore.Exec) (string, string) {
	tr := si.sc.Transport
	if tr == "" {
		tr = "direct"
	}
	switch x.Out.Kind {
	case "crash":
		return "crash:" + firstLine(x.Out.CrashVal), x.Out.Crash
	case "horizon":
		return "horizon", "execution did not finish within the step horizon"
	case "blocked":
		what := strings.Join(x.Out.Blocked, "; ")
		cls := blockClass(x.Out.Blocked)
		if !x.Out.MainDone && x.Out.EnvPending && (si.sc.Transport == "ws" || si.sc.Transport == "ws-timeout" || si.sc.Transport == "ws2") {
			// a websocket session legitimately waits for its peer / its init timeout
			return "", ""
		}
		if !x.Out.MainDone {
			return "deadlock:" + cls, fmt.Sprintf("[%s] the request never returns (cancelled=%v): blocked threads: %s", tr, si.Cancelled, what)
		}
		return "leak:" + tr + ":" + cls, fmt.Sprintf("[%s] goroutines still alive after the request ended and its context was cancelled: %s", tr, what)
	}
	return "", ""
}

// blockClass names where the blocked gqlgen threads sit (site of thread creation + op).
func blockClass(bl []string) string {
	seen := map[string]bool{}
	var out []string
	for _, b := range bl {
		// "id@site: op"
		i := strings.Index(b, "@")
		j := strings.LastIndex(b, ": ")
		if i < 0 || j < 0 {
			continue
		}
		site := b[i+1 : j]
		if k := strings.LastIndex(site, "/"); k >= 0 {
			site = site[k+1:]
		}
		if k := strings.LastIndex(site, ":"); k >= 0 {
			site = site[:k] // drop line numbers: generated code shifts
		}
		op := strings.Fields(b[j+2:])[0]
		c := site + "/" + op
		if !seen[c] {
			seen[c] = true
			out = append(out, c)
		}
	}
	return strings.Join(out, ",")
}

// Scenarios over the shapes probe (nested lists, struct-field objects, method-bound fields).
func c06ShapesCases(tier string) []SchedCase {
	var out []SchedCase
	// nested lists multiply the threads: one deviation fewer than the property's bound
	b := 2
	if tier == "thorough" {
		b = 3
	}
	add := func(q string, p Plan) {
		out = append(out, SchedCase{Case: Case{Op: Op{Text: q}, Plan: p, Yield: true}, Name: q + " | " + p.Key(), Bound: &b})
	}
	add(`{m{grid{colorR} tags}}`, planOf("m.grid", "len1"))
	add(`{m{grid{id colorR}}}`, planOf("m.grid[1][0].colorR", "error", "m.grid[0]", "null"))
	add(`{mReq{gridReq{colorR h{methCtxReq}}}}`, planOf("mReq.gridReq", "len1", "mReq.gridReq[0][1].h.methCtxReq", "error"))
	add(`{ms{kidsPlain{colorR} kidPlain{colorR}}}`, planOf("ms", "len1", "ms[0].kidsPlain[1].colorR", "error", "ms[0].kidPlain.colorR", "error"))
	add(`{h{methCtx{methCtxReq} methCtxList{methCtxReq meth} methOk}}`, planOf("h.methCtxList[0].methCtxReq", "error"))
	add(`{mo{sub{colorR}} m{mo{sub{colorR}}}}`, planOf("mo.sub.colorR", "error"))
	add(`mutation{m1{grid{colorR}} m2{methCtxReq methCtx{methCtxReq}}}`, planOf("m1.grid", "len1"))
	if tier == "thorough" {
		add(`{m{grid{grid{id colorR}}}}`, planOf("m.grid", "len1", "m.grid[0][0].grid", "len1"))
		add(`{box{inner{id ... on N{label}} ... on M{colorR}} node{... on N{label}}}`, planOf("box.inner", "alt", "node", "alt"))
	}
	return out
}

func c05ShapesCases(tier string) []SchedCase {
	var out []SchedCase
	// nested lists multiply the threads: one deviation fewer than the property's bound
	b := 1
	if tier == "thorough" {
		b = 2
	}
	for _, q := range []string{`{m{grid{colorR}}}`, `{ms{kidsPlain{colorR}}}`, `{h{methCtxList{methCtxReq}}}`} {
		out = append(out, SchedCase{Case: Case{Op: Op{Text: q}, Yield: true, Cancel: true}, Name: q + " | ", Bound: &b})
	}
	out = append(out, SchedCase{Case: Case{Op: Op{Text: `{m{gridReq{grid{id}}}}`}, Plan: planOf("m.gridReq", "len3"), Yield: true}, Name: "nested list fields three levels", DefaultOnly: true})
	return out
}

func (s *Shared) schedMain(prop, tier string) {
	var cases []SchedCase
	shapes := s.W.Probe == "shapes"
	switch {
	case prop == "C06" && shapes:
		cases = c06ShapesCases(tier)
	case prop == "C05" && shapes:
		cases = c05ShapesCases(tier)
	case prop == "C13" && shapes:
		cases = s.c13ShapesCases(tier)
	case shapes:
		// no scenarios of this property for the shapes probe
	case prop == "C06":
		cases = c06Cases(tier)
	case prop == "C05":
		cases = c05Cases(tier)
	case prop == "C04":
		cases = c04Cases(tier)
	case prop == "C13":
		cases = s.c13Cases(tier)
	}
	var pairs []pairCase
	if prop == "C07" && !shapes {
		pairs = c07Pairs(tier)
	}
	explore.Main(explore.Options{
		Prop:     prop,
		Level:    "model_checking",
		PassArgs: []string{"--prop", prop},
		Cfg: func(tier string) explore.Config {
			b := 3
			if tier == "thorough" {
				b = 4
			}
			if prop == "C05" {
				b-- // cancellation is an extra event at every point
			}
			if prop == "C13" || prop == "C07" {
				b = 2
			}
			if prop == "C04" {
				b = 1
				if tier == "thorough" {
					b = 2
				}
			}
			return explore.Config{Bound: b, MaxSteps: 20000}
		},
		Scenarios: func(tier string) []*explore.Scenario {
			var out []*explore.Scenario
			for _, pc := range pairs {
				pc := pc
				op := Op{Text: pc.Text, Vars: pc.A}
				doc, errs := s.Parse(op)
				if errs != nil {
					panic(fmt.Sprintf("pair corpus operation invalid: %s: %v", pc.Text, errs))
				}
				out = append(out, &explore.Scenario{Name: "pair: " + pc.Name, Meta: pc, New: func() explore.Instance {
					return &pairInst{S: s, Plan: pc.Plan, Text: pc.Text, Vars: [2]map[string]any{pc.A, pc.B}, Doc: doc}
				}})
			}
			for _, c := range cases {
				c := c
				doc, errs := s.Parse(c.Op)
				if errs != nil && !c.Invalid {
					panic(fmt.Sprintf("corpus operation invalid: %s: %v", c.Op.Text, errs))
				}
				out = append(out, &explore.Scenario{Name: c.Name, Meta: c, Bound: c.Bound, DefaultOnly: c.DefaultOnly, New: func() explore.Instance {
					return &schedInst{Inst: s.NewInst(c.Case, doc), sc: c, prop: prop}
				}})
			}
			return out
		},
	})
}

// serveWebsocket runs the operation over the real websocket transport on an in-memory
// connection: a scripted graphql-transport-ws client sends connection_init and subscribe,
// waits for the operation's complete (or error) frame and disconnects. With "ws-timeout"
// the client stays silent and the init timeout is what ends the session.
func (si *schedInst) serveWebsocket(ctx context.Context, srv *handler.Server, params []byte) {
	conn := rig.NewConn()
	si.wsConn = conn
	done := false
	conn.OnWrite = func(p []byte) {
		if bytes.Contains(conn.Out, []byte(`"type":"complete"`)) || bytes.Contains(conn.Out, []byte(`"type":"error"`)) {
			done = true
		}
	}
	ws := transport.Websocket{}
	if si.sc.Transport == "ws-timeout" {
		ws.InitTimeout = time.Second
	}
	srv.AddTransport(ws)
	hrw := rig.NewHijackRW(conn)
	si.rw = hrw.RW
	req := rig.UpgradeRequest("graphql-transport-ws").WithContext(ctx)
	vrt.Go("ws-client", func() {
		if si.sc.Transport == "ws2" {
			// two operations in flight, then a frame that makes the SERVER close the connection
			vrt.Yield("client-send init")
			conn.Feed(rig.ClientFrame(rig.OpText, []byte(`{"type":"connection_init"}`)))
			vrt.Yield("client-send subscribe 1")
			conn.Feed(rig.ClientFrame(rig.OpText, []byte(`{"type":"subscribe","id":"1","payload":`+string(params)+`}`)))
			vrt.Yield("client-send subscribe 2")
			conn.Feed(rig.ClientFrame(rig.OpText, []byte(`{"type":"subscribe","id":"2","payload":`+string(params)+`}`)))
			vrt.Yield("client-send invalid frame")
			conn.Feed(rig.ClientFrame(rig.OpText, []byte(`{"type":`)))
			vrt.Point("client awaits close", nil, func() int {
				if conn.Closed {
					return 1
				}
				return 0
			})
		} else if si.sc.Transport == "ws" {
			vrt.Yield("client-send init")
			conn.Feed(rig.ClientFrame(rig.OpText, []byte(`{"type":"connection_init"}`)))
			vrt.Yield("client-send subscribe")
			conn.Feed(rig.ClientFrame(rig.OpText, []byte(`{"type":"subscribe","id":"1","payload":`+string(params)+`}`)))
			vrt.Point("client awaits completion", nil, func() int {
				if done || conn.Closed {
					return 1
				}
				return 0
			})
		} else {
			// silent client: wait until the server gave up
			vrt.Point("client awaits close", nil, func() int {
				if conn.Closed {
					return 1
				}
				return 0
			})
		}
		vrt.Yield("client-disconnect")
		conn.CloseClient()
	})
	srv.ServeHTTP(hrw, req)
}

func (s *Shared) knownQuirk(sig string) bool { return strings.HasPrefix(sig, "quirk:") }

// deferKnown: C13's known findings are not C04's subject.
func (s *Shared) deferKnown(sig string) bool {
	return sig == "defer:payload-before-its-object" || sig == "defer:payload-for-object-nulled-by-propagation"
}

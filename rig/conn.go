package rig

import (
	"bufio"
	"bytes"
	"encoding/binary"
	"fmt"
	"io"
	"net"
	"net/http"
	"sync"
	"time"

	"verif/vrt"
)

// Conn is the server end of an in-memory connection whose blocking Read is modelled for
// the controlled scheduler. The client side is driven by the harness: Feed appends bytes
// the server will read, CloseClient makes the server see EOF; everything the server
// writes is appended to Out (and handed to OnWrite).
type Conn struct {
	// mu guards the buffers in the free-running -race pass (client and server are real
	// goroutines there); under the controlled scheduler it is never contended
	mu       sync.Mutex
	in       bytes.Buffer
	inClosed bool
	Out      []byte
	Closed   bool // closed by the server
	OnWrite  func(p []byte)

	deadlineSet     bool
	deadlineExpired bool
	deadlineEnv     *vrt.EnvEvent
	reading         bool

	busyBy     string
	Concurrent []string
	// WritesAfterClose counts server writes attempted after the server closed the conn.
	WritesAfterClose int
}

type timeoutErr struct{}

func (timeoutErr) Error() string   { return "i/o timeout" }
func (timeoutErr) Timeout() bool   { return true }
func (timeoutErr) Temporary() bool { return true }

func NewConn() *Conn { return &Conn{} }

// Feed makes bytes available to the server (client -> server).
func (c *Conn) Feed(p []byte) {
	c.mu.Lock()
	c.in.Write(p)
	c.mu.Unlock()
}

// CloseClient: the client goes away (server reads EOF after the buffered bytes).
func (c *Conn) CloseClient() {
	c.mu.Lock()
	c.inClosed = true
	c.mu.Unlock()
}

func (c *Conn) Read(p []byte) (int, error) {
	c.reading = true
	vrt.Point("conn.read", c, func() int {
		c.mu.Lock()
		defer c.mu.Unlock()
		if c.in.Len() > 0 || c.inClosed || c.Closed || c.deadlineExpired {
			return 1
		}
		return 0
	})
	c.mu.Lock()
	defer c.mu.Unlock()
	c.reading = false
	if c.Closed {
		return 0, net.ErrClosed
	}
	if c.in.Len() > 0 {
		return c.in.Read(p)
	}
	if c.deadlineExpired {
		c.deadlineExpired = false
		c.deadlineSet = false
		return 0, timeoutErr{}
	}
	return 0, io.EOF
}

func (c *Conn) Write(p []byte) (int, error) {
	if c.Closed {
		c.WritesAfterClose++
		return 0, net.ErrClosed
	}
	id := vrt.CurID()
	if c.busyBy != "" && c.busyBy != id {
		c.Concurrent = append(c.Concurrent, fmt.Sprintf("thread %s writes while thread %s is inside Write", id, c.busyBy))
	}
	c.busyBy = id
	vrt.Yield("conn.write")
	c.busyBy = ""
	c.mu.Lock()
	c.Out = append(c.Out, p...)
	c.mu.Unlock()
	if c.OnWrite != nil {
		c.OnWrite(p)
	}
	return len(p), nil
}

func (c *Conn) Close() error {
	vrt.Yield("conn.close")
	c.mu.Lock()
	c.Closed = true
	c.mu.Unlock()
	return nil
}

// IsClosed reports whether the server has closed the connection (safe in the free-running pass).
func (c *Conn) IsClosed() bool {
	c.mu.Lock()
	defer c.mu.Unlock()
	return c.Closed
}

type addr struct{}

func (addr) Network() string { return "mem" }
func (addr) String() string  { return "mem" }

func (c *Conn) LocalAddr() net.Addr  { return addr{} }
func (c *Conn) RemoteAddr() net.Addr { return addr{} }

func (c *Conn) SetDeadline(t time.Time) error      { return c.SetReadDeadline(t) }
func (c *Conn) SetWriteDeadline(t time.Time) error { return nil }

// SetReadDeadline: a non-zero deadline arms the environment event "read deadline
// expires" (one deviation), which makes a pending or later Read fail with a timeout.
func (c *Conn) SetReadDeadline(t time.Time) error {
	if t.IsZero() {
		c.deadlineSet = false
		return nil
	}
	c.deadlineSet = true
	if c.deadlineEnv == nil && vrt.Active() {
		c.deadlineEnv = vrt.AddEnv(&vrt.EnvEvent{Name: "read-deadline-expires", Max: 1,
			Enabled: func() bool { return c.deadlineSet && !c.deadlineExpired && !c.Closed },
			Fire:    func() { c.deadlineExpired = true }})
	}
	return nil
}

// HijackRW is an http.ResponseWriter that can be hijacked onto a Conn.
type HijackRW struct {
	*RW
	C        *Conn
	Hijacked bool
}

func NewHijackRW(c *Conn) *HijackRW { return &HijackRW{RW: NewRW(), C: c} }

func (h *HijackRW) Hijack() (net.Conn, *bufio.ReadWriter, error) {
	h.Hijacked = true
	return h.C, bufio.NewReadWriter(bufio.NewReader(h.C), bufio.NewWriter(h.C)), nil
}

// UpgradeRequest builds a websocket upgrade request for the given subprotocol.
func UpgradeRequest(subprotocol string) *http.Request {
	r, _ := http.NewRequest("GET", "http://mem/query", nil)
	r.Header.Set("Connection", "Upgrade")
	r.Header.Set("Upgrade", "websocket")
	r.Header.Set("Sec-WebSocket-Version", "13")
	r.Header.Set("Sec-WebSocket-Key", "dGhlIHNhbXBsZSBub25jZQ==")
	if subprotocol != "" {
		r.Header.Set("Sec-WebSocket-Protocol", subprotocol)
	}
	return r
}

// ---- RFC 6455 frame codec (what the scripted client needs) ------------------------------

const (
	OpText   = 1
	OpBinary = 2
	OpClose  = 8
	OpPing   = 9
	OpPong   = 10
)

// ClientFrame encodes a final, masked (zero key) client frame.
func ClientFrame(op int, payload []byte) []byte {
	var b []byte
	b = append(b, 0x80|byte(op))
	n := len(payload)
	switch {
	case n < 126:
		b = append(b, 0x80|byte(n))
	case n < 65536:
		b = append(b, 0x80|126, byte(n>>8), byte(n))
	default:
		b = append(b, 0x80|127)
		var l [8]byte
		binary.BigEndian.PutUint64(l[:], uint64(n))
		b = append(b, l[:]...)
	}
	b = append(b, 0, 0, 0, 0) // masking key 0: masked payload == payload
	return append(b, payload...)
}

// Frame is a decoded server frame.
type Frame struct {
	Op      int
	Payload []byte
}

// ParseServerFrames decodes complete unmasked frames from buf; it returns the frames and
// the number of bytes consumed. The HTTP 101 response preceding the frames must have been
// stripped by the caller.
func ParseServerFrames(buf []byte) ([]Frame, int, error) {
	var out []Frame
	pos := 0
	for {
		if len(buf)-pos < 2 {
			return out, pos, nil
		}
		b0, b1 := buf[pos], buf[pos+1]
		if b1&0x80 != 0 {
			return out, pos, fmt.Errorf("server frame is masked")
		}
		if b0&0x70 != 0 {
			return out, pos, fmt.Errorf("reserved bits set")
		}
		n := int(b1 & 0x7f)
		h := 2
		switch n {
		case 126:
			if len(buf)-pos < 4 {
				return out, pos, nil
			}
			n = int(binary.BigEndian.Uint16(buf[pos+2:]))
			h = 4
		case 127:
			if len(buf)-pos < 10 {
				return out, pos, nil
			}
			n = int(binary.BigEndian.Uint64(buf[pos+2:]))
			h = 10
		}
		if len(buf)-pos < h+n {
			return out, pos, nil
		}
		if b0&0x80 == 0 {
			return out, pos, fmt.Errorf("fragmented server frame")
		}
		out = append(out, Frame{Op: int(b0 & 0x0f), Payload: append([]byte(nil), buf[pos+h:pos+h+n]...)})
		pos += h + n
	}
}

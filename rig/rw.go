// Package rig holds the harness-side models of the outside world: an
// http.ResponseWriter whose Write/Flush are two-step visible operations that detect
// concurrent use, and (conn.go) an in-memory connection for the websocket transport.
package rig

import (
	"bytes"
	"fmt"
	"net/http"

	"verif/vrt"
)

// RW is a recording http.ResponseWriter + http.Flusher. Each Write / Flush is
// begin · point · end; a second thread entering while one is inside is recorded in
// Concurrent (net/http's ResponseWriter must not be used concurrently: its bufio.Writer
// would interleave or corrupt the bytes).
type RW struct {
	Hdr        http.Header
	Status     int
	Buf        bytes.Buffer
	Flushes    int
	Writes     []string // one entry per Write call (thread id + bytes), for diagnostics
	Concurrent []string
	busyBy     string
	busyOp     string
	// SentHdr is a snapshot of the headers at the first WriteHeader/Write.
	SentHdr http.Header
}

func NewRW() *RW { return &RW{Hdr: http.Header{}} }

func (w *RW) Header() http.Header { return w.Hdr }

func (w *RW) enter(op string) {
	id := vrt.CurID()
	if w.busyBy != "" && w.busyBy != id {
		w.Concurrent = append(w.Concurrent, fmt.Sprintf("thread %s in %s while thread %s is inside %s", id, op, w.busyBy, w.busyOp))
	}
	w.busyBy, w.busyOp = id, op
	vrt.Yield("rw." + op)
}

func (w *RW) leave() { w.busyBy, w.busyOp = "", "" }

func (w *RW) commitHeader() {
	if w.SentHdr == nil {
		w.SentHdr = w.Hdr.Clone()
		if w.Status == 0 {
			w.Status = 200
		}
	}
}

func (w *RW) WriteHeader(code int) {
	if w.SentHdr == nil {
		w.Status = code
		w.commitHeader()
	}
}

func (w *RW) Write(p []byte) (int, error) {
	w.commitHeader()
	w.enter("write")
	w.Buf.Write(p)
	w.Writes = append(w.Writes, vrt.CurID()+":"+string(p))
	w.leave()
	return len(p), nil
}

func (w *RW) Flush() {
	w.commitHeader()
	w.enter("flush")
	w.Flushes++
	w.leave()
}

package vrt

import (
	"cmp"
	"os"
	"slices"
	"strings"
	"sync"
)

var (
	mapOrderOnce sync.Once
	mapOrder     map[string]string // site -> rev|rot ; "*" matches all
	mapSitesOut  string
	mapSitesSeen = map[string]bool{}
	mapMu        sync.Mutex
)

func loadMapOrder() {
	mapOrder = map[string]string{}
	for _, e := range strings.Split(os.Getenv("VERIF_MAPORDER"), ";") {
		if i := strings.Index(e, ":"); i > 0 {
			mapOrder[e[i+1:]] = e[:i]
		}
	}
	mapSitesOut = os.Getenv("VERIF_MAPSITES_OUT")
}

// MapKeys returns the keys of m in a controlled order: sorted by default; a process-level
// override (VERIF_MAPORDER="rev:<site>;rot:<site>;rev:*") or, under the scheduler, an
// environment alternative (reversed order, one deviation) permutes it. Map iteration
// order thereby becomes an enumerated environment answer instead of runtime randomness.
func MapKeys[K cmp.Ordered, V any](site string, m map[K]V) []K {
	keys := make([]K, 0, len(m))
	for k := range m {
		keys = append(keys, k)
	}
	slices.Sort(keys)
	mapOrderOnce.Do(loadMapOrder)
	if mapSitesOut != "" {
		mapMu.Lock()
		if !mapSitesSeen[site] {
			mapSitesSeen[site] = true
			if f, err := os.OpenFile(mapSitesOut, os.O_APPEND|os.O_CREATE|os.O_WRONLY, 0o644); err == nil {
				f.WriteString(site + "\n")
				f.Close()
			}
		}
		mapMu.Unlock()
	}
	mode := mapOrder[site]
	if mode == "" {
		mode = mapOrder["*"]
	}
	if mode == "" && S != nil && len(keys) > 1 && !S.aborting && S.MapAlts {
		if Point("maprange "+site, nil, func() int { return 2 }) == 1 {
			mode = "rev"
		}
	}
	switch mode {
	case "rev":
		slices.Reverse(keys)
	case "rot":
		if len(keys) > 1 {
			keys = append(keys[1:], keys[0])
		}
	}
	return keys
}

// Access marks a visible access to a configured package-level variable.
func Access(name string, write bool) {
	if S == nil {
		return
	}
	if write {
		Yield("write " + name)
	} else {
		Yield("read " + name)
	}
}

package vsync

import (
	"sync"

	"verif/vrt"
)

// OnceFunc / OnceValue / OnceValues: built on the visible Once.

func OnceFunc(f func()) func() {
	var o Once
	var p any
	valid := false
	return func() {
		o.Do(func() {
			defer func() {
				if p = recover(); p != nil {
					panic(p)
				}
				valid = true
			}()
			f()
		})
		if !valid {
			panic(p)
		}
	}
}

func OnceValue[T any](f func() T) func() T {
	var o Once
	var r T
	return func() T {
		o.Do(func() { r = f() })
		return r
	}
}

func OnceValues[T1, T2 any](f func() (T1, T2)) func() (T1, T2) {
	var o Once
	var r1 T1
	var r2 T2
	return func() (T1, T2) {
		o.Do(func() { r1, r2 = f() })
		return r1, r2
	}
}

// Cond: waiters park on a visible channel operation; Signal / Broadcast are visible too.
type Cond struct {
	L       Locker
	real    *sync.Cond
	waiters []chan struct{}
}

func NewCond(l Locker) *Cond { return &Cond{L: l} }

func (c *Cond) r() *sync.Cond {
	if c.real == nil {
		c.real = sync.NewCond(c.L)
	}
	return c.real
}

func (c *Cond) Wait() {
	if !vrt.Active() {
		c.r().Wait()
		return
	}
	ch := make(chan struct{})
	c.waiters = append(c.waiters, ch)
	c.L.Unlock()
	vrt.Recv2(ch)
	c.L.Lock()
}

func (c *Cond) Signal() {
	if !vrt.Active() {
		c.r().Signal()
		return
	}
	vrt.Yield("cond.signal")
	if len(c.waiters) > 0 {
		ch := c.waiters[0]
		c.waiters = c.waiters[1:]
		vrt.Close(ch)
	}
}

func (c *Cond) Broadcast() {
	if !vrt.Active() {
		c.r().Broadcast()
		return
	}
	vrt.Yield("cond.broadcast")
	ws := c.waiters
	c.waiters = nil
	for _, ch := range ws {
		vrt.Close(ch)
	}
}

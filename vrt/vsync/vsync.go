// Package vsync mirrors the names of package sync on top of the controlled runtime.
// With no active scheduler every type falls through to the real primitive.
package vsync

import (
	"fmt"
	"sync"

	"verif/vrt"
)

type Locker = sync.Locker

// Mutex ---------------------------------------------------------------------------

type Mutex struct {
	real   sync.Mutex
	locked bool
	epoch  int64
	owner  string
}

func (m *Mutex) fresh() {
	if e := vrt.S.Epoch; m.epoch != e {
		m.epoch, m.locked = e, false
	}
}

func (m *Mutex) Lock() {
	if !vrt.Active() {
		m.real.Lock()
		return
	}
	m.fresh()
	vrt.Point("lock", m, func() int {
		m.fresh()
		if m.locked {
			return 0
		}
		return 1
	})
	m.locked = true
	m.owner = vrt.CurID()
}

func (m *Mutex) TryLock() bool {
	if !vrt.Active() {
		return m.real.TryLock()
	}
	m.fresh()
	vrt.Point("trylock", m, func() int { return 1 })
	if m.locked {
		return false
	}
	m.locked = true
	return true
}

func (m *Mutex) Unlock() {
	if !vrt.Active() {
		m.real.Unlock()
		return
	}
	if vrt.Aborting() {
		return
	}
	m.fresh()
	if !m.locked {
		panic("sync: unlock of unlocked mutex")
	}
	m.locked = false
}

// RWMutex -------------------------------------------------------------------------

type RWMutex struct {
	real    sync.RWMutex
	writer  bool
	readers int
	epoch   int64
}

func (m *RWMutex) fresh() {
	if e := vrt.S.Epoch; m.epoch != e {
		m.epoch, m.writer, m.readers = e, false, 0
	}
}

func (m *RWMutex) Lock() {
	if !vrt.Active() {
		m.real.Lock()
		return
	}
	m.fresh()
	vrt.Point("wlock", m, func() int {
		m.fresh()
		if m.writer || m.readers > 0 {
			return 0
		}
		return 1
	})
	m.writer = true
}

func (m *RWMutex) Unlock() {
	if !vrt.Active() {
		m.real.Unlock()
		return
	}
	if vrt.Aborting() {
		return
	}
	m.fresh()
	if !m.writer {
		panic("sync: Unlock of unlocked RWMutex")
	}
	m.writer = false
}

func (m *RWMutex) RLock() {
	if !vrt.Active() {
		m.real.RLock()
		return
	}
	m.fresh()
	vrt.Point("rlock", m, func() int {
		m.fresh()
		if m.writer {
			return 0
		}
		return 1
	})
	m.readers++
}

func (m *RWMutex) RUnlock() {
	if !vrt.Active() {
		m.real.RUnlock()
		return
	}
	if vrt.Aborting() {
		return
	}
	m.fresh()
	if m.readers <= 0 {
		panic("sync: RUnlock of unlocked RWMutex")
	}
	m.readers--
}

func (m *RWMutex) RLocker() Locker { return (*rlocker)(m) }

type rlocker RWMutex

func (r *rlocker) Lock()   { (*RWMutex)(r).RLock() }
func (r *rlocker) Unlock() { (*RWMutex)(r).RUnlock() }

// WaitGroup -----------------------------------------------------------------------

type WaitGroup struct {
	real  sync.WaitGroup
	n     int
	epoch int64
}

func (w *WaitGroup) fresh() {
	if e := vrt.S.Epoch; w.epoch != e {
		w.epoch, w.n = e, 0
	}
}

func (w *WaitGroup) Add(d int) {
	if !vrt.Active() {
		w.real.Add(d)
		return
	}
	if vrt.Aborting() {
		return
	}
	w.fresh()
	w.n += d
	if w.n < 0 {
		panic("sync: negative WaitGroup counter")
	}
}

func (w *WaitGroup) Done() { w.Add(-1) }

func (w *WaitGroup) Wait() {
	if !vrt.Active() {
		w.real.Wait()
		return
	}
	w.fresh()
	vrt.Point(fmt.Sprintf("wg.wait"), w, func() int {
		w.fresh()
		if w.n == 0 {
			return 1
		}
		return 0
	})
}

// Once ------------------------------------------------------------------------------

type Once struct {
	real    sync.Once
	done    bool
	running bool
	epoch   int64
}

func (o *Once) fresh() {
	if e := vrt.S.Epoch; o.epoch != e {
		o.epoch, o.done, o.running = e, false, false
	}
}

func (o *Once) Do(f func()) {
	if !vrt.Active() {
		o.real.Do(f)
		return
	}
	o.fresh()
	vrt.Point("once", o, func() int {
		o.fresh()
		if o.running {
			return 0
		}
		return 1
	})
	if o.done {
		return
	}
	o.running = true
	defer func() { o.running, o.done = false, true }()
	f()
}

// Pool ------------------------------------------------------------------------------
// Get has two environment answers when an object is available: the recycled object
// (default) or a fresh one ("the GC emptied the pool": one deviation).

type Pool struct {
	New   func() any
	real  sync.Pool
	items []any
	epoch int64
}

func (p *Pool) fresh() {
	if e := vrt.S.Epoch; p.epoch != e {
		p.epoch, p.items = e, nil
	}
}

func (p *Pool) Get() any {
	if !vrt.Active() {
		if p.real.New == nil && p.New != nil {
			p.real.New = p.New
		}
		return p.real.Get()
	}
	p.fresh()
	alt := vrt.Point("pool.get", p, func() int {
		p.fresh()
		if len(p.items) > 0 {
			return 2
		}
		return 1
	})
	if len(p.items) > 0 && alt == 0 {
		x := p.items[len(p.items)-1]
		p.items = p.items[:len(p.items)-1]
		return x
	}
	if p.New != nil {
		return p.New()
	}
	return nil
}

func (p *Pool) Put(x any) {
	if !vrt.Active() {
		p.real.Put(x)
		return
	}
	if vrt.Aborting() {
		return
	}
	p.fresh()
	p.items = append(p.items, x)
}

// PoolItems exposes the modelled pool contents (state keys of history searches).
func PoolItems(p *Pool) []any { return p.items }

// Map: only what instrumented code uses falls through to the real type.
type Map = sync.Map

// OnceFunc / OnceValue are not used by the instrumented packages.

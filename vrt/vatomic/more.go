package vatomic

import (
	"sync/atomic"
	"unsafe"
)

// the rest of the sync/atomic API, mirrored the same way (scheduling point + real operation)

func CompareAndSwapUint64(addr *uint64, o, n uint64) bool {
	pt("cas")
	return atomic.CompareAndSwapUint64(addr, o, n)
}
func CompareAndSwapUintptr(addr *uintptr, o, n uintptr) bool {
	pt("cas")
	return atomic.CompareAndSwapUintptr(addr, o, n)
}
func CompareAndSwapPointer(addr *unsafe.Pointer, o, n unsafe.Pointer) bool {
	pt("cas")
	return atomic.CompareAndSwapPointer(addr, o, n)
}
func SwapUint32(addr *uint32, n uint32) uint32     { pt("swap"); return atomic.SwapUint32(addr, n) }
func SwapUint64(addr *uint64, n uint64) uint64     { pt("swap"); return atomic.SwapUint64(addr, n) }
func SwapUintptr(addr *uintptr, n uintptr) uintptr { pt("swap"); return atomic.SwapUintptr(addr, n) }
func SwapPointer(addr *unsafe.Pointer, n unsafe.Pointer) unsafe.Pointer {
	pt("swap")
	return atomic.SwapPointer(addr, n)
}
func AddUintptr(addr *uintptr, d uintptr) uintptr { pt("add"); return atomic.AddUintptr(addr, d) }
func LoadUintptr(addr *uintptr) uintptr           { pt("load"); return atomic.LoadUintptr(addr) }
func LoadPointer(addr *unsafe.Pointer) unsafe.Pointer {
	pt("load")
	return atomic.LoadPointer(addr)
}
func StoreUintptr(addr *uintptr, v uintptr) { pt("store"); atomic.StoreUintptr(addr, v) }
func StorePointer(addr *unsafe.Pointer, v unsafe.Pointer) {
	pt("store")
	atomic.StorePointer(addr, v)
}
func AndInt32(addr *int32, m int32) int32     { pt("and"); return atomic.AndInt32(addr, m) }
func AndInt64(addr *int64, m int64) int64     { pt("and"); return atomic.AndInt64(addr, m) }
func AndUint32(addr *uint32, m uint32) uint32 { pt("and"); return atomic.AndUint32(addr, m) }
func AndUint64(addr *uint64, m uint64) uint64 { pt("and"); return atomic.AndUint64(addr, m) }
func OrInt32(addr *int32, m int32) int32      { pt("or"); return atomic.OrInt32(addr, m) }
func OrInt64(addr *int64, m int64) int64      { pt("or"); return atomic.OrInt64(addr, m) }
func OrUint32(addr *uint32, m uint32) uint32  { pt("or"); return atomic.OrUint32(addr, m) }
func OrUint64(addr *uint64, m uint64) uint64  { pt("or"); return atomic.OrUint64(addr, m) }

func (x *Int32) And(m int32) int32  { pt("and"); return x.v.And(m) }
func (x *Int32) Or(m int32) int32   { pt("or"); return x.v.Or(m) }
func (x *Int64) Swap(n int64) int64 { pt("swap"); return x.v.Swap(n) }
func (x *Int64) And(m int64) int64  { pt("and"); return x.v.And(m) }
func (x *Int64) Or(m int64) int64   { pt("or"); return x.v.Or(m) }

type Uint32 struct{ v atomic.Uint32 }

func (x *Uint32) Load() uint32                    { pt("load"); return x.v.Load() }
func (x *Uint32) Store(v uint32)                  { pt("store"); x.v.Store(v) }
func (x *Uint32) Add(d uint32) uint32             { pt("add"); return x.v.Add(d) }
func (x *Uint32) Swap(n uint32) uint32            { pt("swap"); return x.v.Swap(n) }
func (x *Uint32) CompareAndSwap(o, n uint32) bool { pt("cas"); return x.v.CompareAndSwap(o, n) }
func (x *Uint32) And(m uint32) uint32             { pt("and"); return x.v.And(m) }
func (x *Uint32) Or(m uint32) uint32              { pt("or"); return x.v.Or(m) }

type Uint64 struct{ v atomic.Uint64 }

func (x *Uint64) Load() uint64                    { pt("load"); return x.v.Load() }
func (x *Uint64) Store(v uint64)                  { pt("store"); x.v.Store(v) }
func (x *Uint64) Add(d uint64) uint64             { pt("add"); return x.v.Add(d) }
func (x *Uint64) Swap(n uint64) uint64            { pt("swap"); return x.v.Swap(n) }
func (x *Uint64) CompareAndSwap(o, n uint64) bool { pt("cas"); return x.v.CompareAndSwap(o, n) }
func (x *Uint64) And(m uint64) uint64             { pt("and"); return x.v.And(m) }
func (x *Uint64) Or(m uint64) uint64              { pt("or"); return x.v.Or(m) }

type Uintptr struct{ v atomic.Uintptr }

func (x *Uintptr) Load() uintptr                    { pt("load"); return x.v.Load() }
func (x *Uintptr) Store(v uintptr)                  { pt("store"); x.v.Store(v) }
func (x *Uintptr) Add(d uintptr) uintptr            { pt("add"); return x.v.Add(d) }
func (x *Uintptr) Swap(n uintptr) uintptr           { pt("swap"); return x.v.Swap(n) }
func (x *Uintptr) CompareAndSwap(o, n uintptr) bool { pt("cas"); return x.v.CompareAndSwap(o, n) }

type Pointer[T any] struct{ v atomic.Pointer[T] }

func (x *Pointer[T]) Load() *T                    { pt("load"); return x.v.Load() }
func (x *Pointer[T]) Store(v *T)                  { pt("store"); x.v.Store(v) }
func (x *Pointer[T]) Swap(n *T) *T                { pt("swap"); return x.v.Swap(n) }
func (x *Pointer[T]) CompareAndSwap(o, n *T) bool { pt("cas"); return x.v.CompareAndSwap(o, n) }

// Package vatomic mirrors sync/atomic: each operation is a scheduling point followed by
// the real atomic operation.
package vatomic

import (
	"sync/atomic"

	"verif/vrt"
)

func pt(d string) { vrt.Yield("atomic." + d) }

func AddInt32(addr *int32, delta int32) int32     { pt("add"); return atomic.AddInt32(addr, delta) }
func AddInt64(addr *int64, delta int64) int64     { pt("add"); return atomic.AddInt64(addr, delta) }
func AddUint32(addr *uint32, delta uint32) uint32 { pt("add"); return atomic.AddUint32(addr, delta) }
func AddUint64(addr *uint64, delta uint64) uint64 { pt("add"); return atomic.AddUint64(addr, delta) }
func LoadInt32(addr *int32) int32                 { pt("load"); return atomic.LoadInt32(addr) }
func LoadInt64(addr *int64) int64                 { pt("load"); return atomic.LoadInt64(addr) }
func LoadUint32(addr *uint32) uint32              { pt("load"); return atomic.LoadUint32(addr) }
func LoadUint64(addr *uint64) uint64              { pt("load"); return atomic.LoadUint64(addr) }
func StoreInt32(addr *int32, v int32)             { pt("store"); atomic.StoreInt32(addr, v) }
func StoreInt64(addr *int64, v int64)             { pt("store"); atomic.StoreInt64(addr, v) }
func StoreUint32(addr *uint32, v uint32)          { pt("store"); atomic.StoreUint32(addr, v) }
func StoreUint64(addr *uint64, v uint64)          { pt("store"); atomic.StoreUint64(addr, v) }
func CompareAndSwapInt32(addr *int32, o, n int32) bool {
	pt("cas")
	return atomic.CompareAndSwapInt32(addr, o, n)
}
func CompareAndSwapInt64(addr *int64, o, n int64) bool {
	pt("cas")
	return atomic.CompareAndSwapInt64(addr, o, n)
}
func CompareAndSwapUint32(addr *uint32, o, n uint32) bool {
	pt("cas")
	return atomic.CompareAndSwapUint32(addr, o, n)
}
func SwapInt32(addr *int32, n int32) int32 { pt("swap"); return atomic.SwapInt32(addr, n) }
func SwapInt64(addr *int64, n int64) int64 { pt("swap"); return atomic.SwapInt64(addr, n) }

type Int32 struct{ v atomic.Int32 }

func (x *Int32) Load() int32                    { pt("load"); return x.v.Load() }
func (x *Int32) Store(v int32)                  { pt("store"); x.v.Store(v) }
func (x *Int32) Add(d int32) int32              { pt("add"); return x.v.Add(d) }
func (x *Int32) Swap(n int32) int32             { pt("swap"); return x.v.Swap(n) }
func (x *Int32) CompareAndSwap(o, n int32) bool { pt("cas"); return x.v.CompareAndSwap(o, n) }

type Int64 struct{ v atomic.Int64 }

func (x *Int64) Load() int64                    { pt("load"); return x.v.Load() }
func (x *Int64) Store(v int64)                  { pt("store"); x.v.Store(v) }
func (x *Int64) Add(d int64) int64              { pt("add"); return x.v.Add(d) }
func (x *Int64) CompareAndSwap(o, n int64) bool { pt("cas"); return x.v.CompareAndSwap(o, n) }

type Bool struct{ v atomic.Bool }

func (x *Bool) Load() bool                    { pt("load"); return x.v.Load() }
func (x *Bool) Store(v bool)                  { pt("store"); x.v.Store(v) }
func (x *Bool) Swap(n bool) bool              { pt("swap"); return x.v.Swap(n) }
func (x *Bool) CompareAndSwap(o, n bool) bool { pt("cas"); return x.v.CompareAndSwap(o, n) }

type Value = atomic.Value

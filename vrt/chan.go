package vrt

import (
	"fmt"
	"reflect"
	"unsafe"
)

// Channels stay real Go channels (they carry the buffer and the identity); the
// scheduler decides *readiness*:
//   - buffered send: ready iff len < cap; buffered receive: ready iff len > 0;
//   - unbuffered: rendezvous between two parked managed threads (values are handed over
//     through the pending operations, the real channel is never blocked on);
//   - receive on an empty channel additionally polls the real channel without blocking,
//     which detects channels closed by un-instrumented code (context.Done()) - a poll has
//     no side effect unless the channel is closed or a foreign sender is blocked on it.
//
// Partners are matched in FIFO order of parking.

type chanCase struct {
	ptr   uintptr
	send  bool
	cap   int
	isNil bool
	val   any
	lenf  func() int
	// recv: non-blocking real receive -> (value, ok, got)
	poll func() (any, bool, bool)
	// send: non-blocking real send of val -> sent
	trySend func() bool
	// result
	rv      any
	rok     bool
	stashed bool
	partner *Thread
	desc    string
}

func recvCase[T any](ch <-chan T) *chanCase {
	c := &chanCase{}
	if ch == nil {
		c.isNil = true
		c.desc = "recv nil"
		return c
	}
	c.ptr = *(*uintptr)(unsafe.Pointer(&ch))
	c.cap = cap(ch)
	c.lenf = func() int { return len(ch) }
	c.poll = func() (any, bool, bool) {
		select {
		case v, ok := <-ch:
			return v, ok, true
		default:
			return nil, false, false
		}
	}
	c.desc = fmt.Sprintf("recv %#x", c.ptr&0xffffff)
	return c
}

func sendCase[T any](ch chan<- T, v T) *chanCase {
	c := &chanCase{send: true, val: v}
	if ch == nil {
		c.isNil = true
		c.desc = "send nil"
		return c
	}
	c.ptr = *(*uintptr)(unsafe.Pointer(&ch))
	c.cap = cap(ch)
	c.lenf = func() int { return len(ch) }
	c.trySend = func() bool {
		select {
		case ch <- v:
			return true
		default:
			return false
		}
	}
	c.desc = fmt.Sprintf("send %#x", c.ptr&0xffffff)
	return c
}

// findPartner returns the earliest-parked thread (other than t) with a pending,
// uncompleted channel operation having a case on ptr in the wanted direction.
func (s *Sched) findPartner(t *Thread, ptr uintptr, wantSend bool) (*Thread, int) {
	var best *Thread
	bi := -1
	for _, o := range s.threads {
		if o == t || o.exited || o.pending == nil || o.pending.kind != opChan || o.pending.done {
			continue
		}
		for i, c := range o.pending.cases {
			if !c.isNil && c.ptr == ptr && c.send == wantSend {
				if best == nil || o.parkSeq < best.parkSeq {
					best, bi = o, i
				}
				break
			}
		}
	}
	return best, bi
}

// caseReady decides readiness of one case of t's pending op (may stash a polled value).
func (s *Sched) caseReady(t *Thread, c *chanCase) bool {
	if c.isNil {
		return false
	}
	if c.send {
		if s.closedChan[c.ptr] {
			return true // send on closed channel: proceeds (and panics, as in Go)
		}
		if c.cap > 0 {
			return c.lenf() < c.cap
		}
		p, _ := s.findPartner(t, c.ptr, false)
		return p != nil
	}
	if c.stashed {
		return true
	}
	if c.lenf() > 0 {
		return true
	}
	if c.cap == 0 {
		if p, _ := s.findPartner(t, c.ptr, true); p != nil {
			return true
		}
	}
	// empty: poll the real channel (closed, or a foreign sender)
	if v, ok, got := c.poll(); got {
		c.rv, c.rok, c.stashed = v, ok, true
		return true
	}
	return false
}

func (s *Sched) readyCases(t *Thread, op *Op) []int {
	var r []int
	for i, c := range op.cases {
		if s.caseReady(t, c) {
			r = append(r, i)
		}
	}
	return r
}

func (s *Sched) chanAlts(t *Thread, op *Op) int {
	n := len(s.readyCases(t, op))
	if n == 0 && op.dflt {
		return 1
	}
	return n
}

// chanCommit performs the chosen alternative of a channel operation on behalf of t (it is
// executed by the scheduler just before t is released, so no other thread is running).
func (s *Sched) chanCommit(t *Thread, op *Op, alt int) {
	ready := s.readyCases(t, op)
	if len(ready) == 0 {
		if op.dflt {
			op.done, op.doneCase = true, -1
			return
		}
		panic("vrt: chanCommit on a blocked operation")
	}
	ci := ready[alt]
	c := op.cases[ci]
	op.done, op.doneCase = true, ci
	if c.send {
		if s.closedChan[c.ptr] {
			c.partner = nil
			c.stashed = true // marks "panic: send on closed channel" for the sender
			c.rok = false
			return
		}
		if c.cap > 0 {
			if !c.trySend() {
				panic("vrt: buffered send predicted ready but failed")
			}
			c.rok = true
			return
		}
		p, pi := s.findPartner(t, c.ptr, false)
		pc := p.pending.cases[pi]
		pc.rv, pc.rok, pc.stashed = c.val, true, true
		p.pending.done, p.pending.doneCase = true, pi
		c.rok = true
		return
	}
	if c.stashed {
		return
	}
	if c.lenf() > 0 {
		v, ok, got := c.poll()
		if !got {
			panic("vrt: buffered receive predicted ready but failed")
		}
		c.rv, c.rok, c.stashed = v, ok, true
		return
	}
	p, pi := s.findPartner(t, c.ptr, true)
	pc := p.pending.cases[pi]
	c.rv, c.rok, c.stashed = pc.val, true, true
	pc.rok = true
	p.pending.done, p.pending.doneCase = true, pi
}

func (s *Sched) chanOp(desc string, dflt bool, cases ...*chanCase) (int, *chanCase) {
	op := &Op{kind: opChan, Desc: desc, cases: cases, dflt: dflt}
	s.point(op)
	if op.doneCase < 0 {
		return -1, nil
	}
	c := op.cases[op.doneCase]
	if c.send && !c.rok {
		panic("send on closed channel")
	}
	return op.doneCase, c
}

// Send is `ch <- v`.
func Send[T any](ch chan<- T, v T) {
	s := S
	if s == nil {
		ch <- v
		return
	}
	if s.aborting {
		s.point(nil)
	}
	c := sendCase(ch, v)
	s.chanOp(c.desc, false, c)
}

// Recv is `<-ch`.
func Recv[T any](ch <-chan T) T {
	v, _ := Recv2(ch)
	return v
}

// Recv2 is `v, ok := <-ch`.
func Recv2[T any](ch <-chan T) (T, bool) {
	s := S
	if s == nil {
		v, ok := <-ch
		return v, ok
	}
	if s.aborting {
		s.point(nil)
	}
	c := recvCase(ch)
	s.chanOp(c.desc, false, c)
	var zero T
	if c.rv == nil {
		return zero, c.rok
	}
	return c.rv.(T), c.rok
}

// Close is `close(ch)`: a visible operation.
func Close[T any](ch chan<- T) {
	s := S
	if s == nil {
		close(ch)
		return
	}
	if s.aborting {
		return
	}
	p := *(*uintptr)(unsafe.Pointer(&ch))
	s.point(&Op{kind: opSimple, Desc: fmt.Sprintf("close %#x", p&0xffffff), alts: one})
	s.closedChan[p] = true
	close(ch)
}

// Select support: the instrumenter rewrites
//
//	select { case v, ok := <-c0: A; case c1 <- x: B; default: D }
//
// into
//
//	switch __h0, __h1 := vrt.RecvCase(c0), vrt.SendCase(c1, x); vrt.Select(true, __h0, __h1) {
//	case 0: v, ok := __h0.Val(), __h0.OK(); A
//	case 1: B
//	default: D
//	}

type SelCase interface{ cc() *chanCase }

type RecvH[T any] struct {
	ch <-chan T
	c  *chanCase
}

func RecvCase[T any](ch <-chan T) *RecvH[T] { return &RecvH[T]{ch: ch} }
func (h *RecvH[T]) cc() *chanCase {
	if h.c == nil {
		h.c = recvCase(h.ch)
	}
	return h.c
}
func (h *RecvH[T]) Val() T {
	var zero T
	if h.c == nil || h.c.rv == nil {
		return zero
	}
	return h.c.rv.(T)
}
func (h *RecvH[T]) OK() bool { return h.c != nil && h.c.rok }

type SendH[T any] struct {
	ch chan<- T
	v  T
	c  *chanCase
}

func SendCase[T any](ch chan<- T, v T) *SendH[T] { return &SendH[T]{ch: ch, v: v} }
func (h *SendH[T]) cc() *chanCase {
	if h.c == nil {
		h.c = sendCase(h.ch, h.v)
	}
	return h.c
}

// Select returns the index of the chosen case, or -1 for default.
func Select(hasDefault bool, hs ...SelCase) int {
	s := S
	if s == nil {
		return realSelect(hasDefault, hs)
	}
	if s.aborting {
		s.point(nil)
	}
	cases := make([]*chanCase, len(hs))
	desc := "select"
	for i, h := range hs {
		cases[i] = h.cc()
		desc += " " + cases[i].desc
	}
	i, _ := s.chanOp(desc, hasDefault, cases...)
	return i
}

// BlockForever is `select {}`.
func BlockForever() {
	s := S
	if s == nil {
		select {}
	}
	s.point(&Op{kind: opSimple, Desc: "select{}", alts: func() int { return 0 }})
}

// ---- passthrough select (free-running mode) ----

type realCase interface {
	rcase() reflect.SelectCase
	setRecv(v reflect.Value, ok bool)
}

func (h *RecvH[T]) rcase() reflect.SelectCase {
	return reflect.SelectCase{Dir: reflect.SelectRecv, Chan: reflect.ValueOf(h.ch)}
}
func (h *RecvH[T]) setRecv(v reflect.Value, ok bool) {
	h.c = &chanCase{rok: ok}
	if v.IsValid() {
		h.c.rv = v.Interface()
	}
}
func (h *SendH[T]) rcase() reflect.SelectCase {
	return reflect.SelectCase{Dir: reflect.SelectSend, Chan: reflect.ValueOf(h.ch), Send: reflect.ValueOf(&h.v).Elem()}
}
func (h *SendH[T]) setRecv(reflect.Value, bool) {}

func realSelect(hasDefault bool, hs []SelCase) int {
	cases := make([]reflect.SelectCase, 0, len(hs)+1)
	for _, h := range hs {
		rc := h.(realCase).rcase()
		if !rc.Chan.IsValid() || rc.Chan.IsNil() {
			rc = reflect.SelectCase{Dir: reflect.SelectRecv, Chan: reflect.ValueOf((chan struct{})(nil))}
		}
		cases = append(cases, rc)
	}
	if hasDefault {
		cases = append(cases, reflect.SelectCase{Dir: reflect.SelectDefault})
	}
	i, v, ok := reflect.Select(cases)
	if hasDefault && i == len(hs) {
		return -1
	}
	hs[i].(realCase).setRecv(v, ok)
	return i
}

// ReflectSendOrDone is `select { case ch <- v: return true; case <-done: return false }`
// for a channel only known through reflection (universal subscription sources).
func ReflectSendOrDone(ch, v reflect.Value, done <-chan struct{}) bool {
	s := S
	if s.aborting {
		s.point(nil)
	}
	c := &chanCase{send: true, val: v.Interface(), ptr: ch.Pointer(), cap: ch.Cap(), lenf: ch.Len,
		trySend: func() bool { return ch.TrySend(v) }, desc: fmt.Sprintf("send %#x", ch.Pointer()&0xffffff)}
	d := recvCase(done)
	i, _ := s.chanOp("select "+c.desc+" "+d.desc, false, c, d)
	return i == 0
}

// Package vcontext mirrors package context. Contexts stay real contexts (so they flow
// through un-instrumented code unchanged); cancel functions become visible operations.
// Done() channels are real and are observed by the scheduler through non-blocking polls.
package vcontext

import (
	"context"
	gosync "sync"
	"time"

	"verif/vrt"
)

type (
	Context         = context.Context
	CancelFunc      = context.CancelFunc
	CancelCauseFunc = context.CancelCauseFunc
)

var (
	Canceled         = context.Canceled
	DeadlineExceeded = context.DeadlineExceeded
)

func Background() Context                   { return context.Background() }
func TODO() Context                         { return context.TODO() }
func WithValue(p Context, k, v any) Context { return context.WithValue(p, k, v) }
func Cause(c Context) error                 { return context.Cause(c) }
func WithoutCancel(p Context) Context       { return context.WithoutCancel(p) }

func WithCancel(p Context) (Context, CancelFunc) {
	ctx, cancel := context.WithCancel(p)
	if !vrt.Active() {
		return ctx, cancel
	}
	return ctx, func() {
		if !vrt.Aborting() {
			vrt.Yield("cancel")
		}
		cancel()
	}
}

func WithCancelCause(p Context) (Context, CancelCauseFunc) {
	ctx, cancel := context.WithCancelCause(p)
	if !vrt.Active() {
		return ctx, cancel
	}
	return ctx, func(err error) {
		if !vrt.Aborting() {
			vrt.Yield("cancel")
		}
		cancel(err)
	}
}

// AfterFunc: the waiting goroutine is a managed one (it wakes when ctx is done or stop is
// called), f runs on it like context.AfterFunc runs f in its own goroutine.
func AfterFunc(ctx Context, f func()) (stop func() bool) {
	if !vrt.Active() {
		return context.AfterFunc(ctx, f)
	}
	stopCh := make(chan struct{})
	var mu gosync.Mutex // never held across a scheduling point
	state := 0          // 0 pending, 1 started, 2 stopped
	vrt.Go("context.AfterFunc", func() {
		if vrt.Select(false, vrt.RecvCase(ctx.Done()), vrt.RecvCase(stopCh)) != 0 {
			return
		}
		mu.Lock()
		run := state == 0
		if run {
			state = 1
		}
		mu.Unlock()
		if run {
			f()
		}
	})
	return func() bool {
		mu.Lock()
		if state != 0 {
			mu.Unlock()
			return false
		}
		state = 2
		mu.Unlock()
		vrt.Close(stopCh)
		return true
	}
}

// Deadlines: under the controlled scheduler real time does not pass, so a context deadline
// never expires by itself within an execution (timeouts that matter to a property are
// modelled as environment events by the harness); the cancel function is a visible operation.
func WithDeadline(p Context, d time.Time) (Context, CancelFunc) {
	if !vrt.Active() {
		return context.WithDeadline(p, d)
	}
	ctx, cancel := context.WithDeadline(p, time.Now().Add(1000*time.Hour))
	return ctx, func() {
		if !vrt.Aborting() {
			vrt.Yield("cancel")
		}
		cancel()
	}
}

func WithTimeout(p Context, d time.Duration) (Context, CancelFunc) {
	if !vrt.Active() {
		return context.WithTimeout(p, d)
	}
	return WithDeadline(p, time.Now().Add(d))
}

func WithDeadlineCause(p Context, d time.Time, cause error) (Context, CancelFunc) {
	if !vrt.Active() {
		return context.WithDeadlineCause(p, d, cause)
	}
	return WithDeadline(p, d)
}

func WithTimeoutCause(p Context, d time.Duration, cause error) (Context, CancelFunc) {
	if !vrt.Active() {
		return context.WithTimeoutCause(p, d, cause)
	}
	return WithDeadline(p, time.Now().Add(d))
}

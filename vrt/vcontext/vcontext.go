// Package vcontext mirrors package context. Contexts stay real contexts (so they flow
// through un-instrumented code unchanged); cancel functions become visible operations.
// Done() channels are real and are observed by the scheduler through non-blocking polls.
package vcontext

import (
	"context"

	"verif/vrt"
)

type (
	Context         = context.Context
	CancelFunc      = context.CancelFunc
	CancelCauseFunc = context.CancelCauseFunc
)

var (
	Canceled         = context.Canceled
	DeadlineExceeded = context.DeadlineExceeded
)

func Background() Context                   { return context.Background() }
func TODO() Context                         { return context.TODO() }
func WithValue(p Context, k, v any) Context { return context.WithValue(p, k, v) }
func Cause(c Context) error                 { return context.Cause(c) }
func WithoutCancel(p Context) Context       { return context.WithoutCancel(p) }

func WithCancel(p Context) (Context, CancelFunc) {
	ctx, cancel := context.WithCancel(p)
	if !vrt.Active() {
		return ctx, cancel
	}
	return ctx, func() {
		if !vrt.Aborting() {
			vrt.Yield("cancel")
		}
		cancel()
	}
}

func WithCancelCause(p Context) (Context, CancelCauseFunc) {
	ctx, cancel := context.WithCancelCause(p)
	if !vrt.Active() {
		return ctx, cancel
	}
	return ctx, func(err error) {
		if !vrt.Aborting() {
			vrt.Yield("cancel")
		}
		cancel(err)
	}
}

// Package vtime mirrors package time. Under the controlled scheduler the clock is
// virtual (Now advances by one millisecond per call) and tickers / timers fire only as
// *environment events* chosen by the explorer, so timing becomes an ordering that is
// enumerated instead of sampled.
package vtime

import (
	"fmt"
	"time"

	"verif/vrt"
)

type (
	Duration = time.Duration
	Time     = time.Time
	Month    = time.Month
	Location = time.Location
	Weekday  = time.Weekday
)

const (
	Nanosecond  = time.Nanosecond
	Microsecond = time.Microsecond
	Millisecond = time.Millisecond
	Second      = time.Second
	Minute      = time.Minute
	Hour        = time.Hour

	RFC3339     = time.RFC3339
	RFC3339Nano = time.RFC3339Nano
	RFC1123     = time.RFC1123
)

var (
	UTC   = time.UTC
	Local = time.Local
)

func Parse(layout, value string) (Time, error) { return time.Parse(layout, value) }
func ParseDuration(s string) (Duration, error) { return time.ParseDuration(s) }
func Unix(sec, nsec int64) Time                { return time.Unix(sec, nsec) }
func Date(y int, m Month, d, h, mi, s, ns int, loc *Location) Time {
	return time.Date(y, m, d, h, mi, s, ns, loc)
}

var (
	clockEpoch int64
	clock      time.Time
	timerSeq   int
)

func vnow() time.Time {
	if e := vrt.S.Epoch; clockEpoch != e {
		clockEpoch = e
		clock = time.Date(2020, 1, 1, 0, 0, 0, 0, time.UTC)
		timerSeq = 0
	}
	clock = clock.Add(time.Millisecond)
	return clock
}

func Now() Time {
	if !vrt.Active() {
		return time.Now()
	}
	return vnow()
}

func Since(t Time) Duration { return Now().Sub(t) }
func Until(t Time) Duration { return t.Sub(Now()) }

func Sleep(d Duration) {
	if !vrt.Active() {
		time.Sleep(d)
		return
	}
	vrt.Yield("sleep")
}

// MaxTicks bounds how often one ticker may fire within one execution.
var MaxTicks = 2

// Ticker ------------------------------------------------------------------------------

type Ticker struct {
	C       <-chan Time
	c       chan Time
	real    *time.Ticker
	stopped bool
	env     *vrt.EnvEvent
}

func NewTicker(d Duration) *Ticker {
	if d <= 0 {
		panic("non-positive interval for NewTicker")
	}
	if !vrt.Active() {
		r := time.NewTicker(d)
		return &Ticker{C: r.C, real: r}
	}
	vnow()
	timerSeq++
	t := &Ticker{c: make(chan Time, 1)}
	t.C = t.c
	t.env = vrt.AddEnv(&vrt.EnvEvent{
		Name:    fmt.Sprintf("tick#%d", timerSeq),
		Max:     MaxTicks,
		Enabled: func() bool { return !t.stopped && len(t.c) == 0 },
		Fire: func() {
			select {
			case t.c <- vnow():
			default:
			}
		},
	})
	return t
}

func (t *Ticker) Stop() {
	if t.real != nil {
		t.real.Stop()
		return
	}
	t.stopped = true
}

func (t *Ticker) Reset(d Duration) {
	if t.real != nil {
		t.real.Reset(d)
		return
	}
	t.stopped = false
}

// Timer -------------------------------------------------------------------------------

type Timer struct {
	C       <-chan Time
	c       chan Time
	real    *time.Timer
	stopped bool
	fired   bool
	f       func()
}

func newTimer(name string, d Duration, f func()) *Timer {
	vnow()
	timerSeq++
	t := &Timer{c: make(chan Time, 1), f: f}
	t.C = t.c
	if d >= time.Hour {
		// "never" timers (gorilla uses 1000h when no deadline is set) do not fire
		return t
	}
	vrt.AddEnv(&vrt.EnvEvent{
		Name:    fmt.Sprintf("%s#%d", name, timerSeq),
		Enabled: func() bool { return !t.stopped && !t.fired },
		Fire: func() {
			t.fired = true
			if t.f != nil {
				f := t.f
				vrt.GoEnv("timerfunc", f)
				return
			}
			select {
			case t.c <- vnow():
			default:
			}
		},
	})
	return t
}

func NewTimer(d Duration) *Timer {
	if !vrt.Active() {
		r := time.NewTimer(d)
		return &Timer{C: r.C, real: r}
	}
	return newTimer("timer", d, nil)
}

func After(d Duration) <-chan Time {
	if !vrt.Active() {
		return time.After(d)
	}
	return newTimer("after", d, nil).C
}

func AfterFunc(d Duration, f func()) *Timer {
	if !vrt.Active() {
		return &Timer{real: time.AfterFunc(d, f)}
	}
	return newTimer("afterfunc", d, f)
}

func (t *Timer) Stop() bool {
	if t.real != nil {
		return t.real.Stop()
	}
	was := !t.stopped && !t.fired
	t.stopped = true
	return was
}

func (t *Timer) Reset(d Duration) bool {
	if t.real != nil {
		return t.real.Reset(d)
	}
	was := !t.stopped && !t.fired
	t.stopped, t.fired = false, false
	return was
}

package vtime

import "time"

// plain pass-throughs of package time (values and pure functions; nothing here waits)

type (
	ParseError = time.ParseError
)

const (
	Layout      = time.Layout
	ANSIC       = time.ANSIC
	UnixDate    = time.UnixDate
	RubyDate    = time.RubyDate
	RFC822      = time.RFC822
	RFC822Z     = time.RFC822Z
	RFC850      = time.RFC850
	RFC1123Z    = time.RFC1123Z
	Kitchen     = time.Kitchen
	Stamp       = time.Stamp
	StampMilli  = time.StampMilli
	StampMicro  = time.StampMicro
	StampNano   = time.StampNano
	DateTime    = time.DateTime
	DateOnly    = time.DateOnly
	TimeOnly    = time.TimeOnly
)

const (
	January   = time.January
	February  = time.February
	March     = time.March
	April     = time.April
	May       = time.May
	June      = time.June
	July      = time.July
	August    = time.August
	September = time.September
	October   = time.October
	November  = time.November
	December  = time.December
)

const (
	Sunday    = time.Sunday
	Monday    = time.Monday
	Tuesday   = time.Tuesday
	Wednesday = time.Wednesday
	Thursday  = time.Thursday
	Friday    = time.Friday
	Saturday  = time.Saturday
)

func ParseInLocation(layout, value string, loc *Location) (Time, error) {
	return time.ParseInLocation(layout, value, loc)
}
func FixedZone(name string, offset int) *Location { return time.FixedZone(name, offset) }
func LoadLocation(name string) (*Location, error) { return time.LoadLocation(name) }
func UnixMilli(msec int64) Time                   { return time.UnixMilli(msec) }
func UnixMicro(usec int64) Time                   { return time.UnixMicro(usec) }

// Tick is NewTicker(d).C (the ticker is never stopped, as in package time).
func Tick(d Duration) <-chan Time { return NewTicker(d).C }

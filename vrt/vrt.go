// Package vrt is the controlled runtime: a cooperative scheduler that owns every
// synchronisation operation of instrumented code, so that an explorer can enumerate
// thread interleavings and environment events of the real gqlgen code.
//
// Exactly one managed thread runs at a time. Before each visible operation a thread
// parks at a *point* publishing the pending operation; the scheduler (running on the
// explorer's goroutine) computes the enabled choices from the pending operations, picks
// one and releases that thread, which performs the operation's effect and runs to its
// next point. With no active scheduler every operation falls through to the real
// primitive ("passthrough" mode: used by the free-running -race pass and by sequential
// harnesses).
package vrt

import (
	"fmt"
	"os"
	"runtime"
	"runtime/debug"
	"sort"
	"strings"
	"sync/atomic"
	"time"
)

// S is the active scheduler (nil = passthrough). Only the running thread or the
// scheduler itself (when every thread is parked) touches it.
var S *Sched

// Active reports whether code runs under the controlled scheduler.
func Active() bool { return S != nil }

type opKind int

const (
	opStart opKind = iota
	opSimple
	opChan
)

// Op is a pending visible operation of a parked thread.
type Op struct {
	kind  opKind
	Desc  string
	Obj   any        // the primitive the operation is on (for diagnostics / state keys)
	alts  func() int // opSimple: number of enabled alternatives (0 = blocked)
	cases []*chanCase
	dflt  bool
	// completion by a rendezvous partner
	done     bool
	doneCase int
}

// Thread is a managed goroutine.
type Thread struct {
	ID      string
	Site    string
	gate    chan struct{}
	pending *Op
	alt     int // alternative granted by the scheduler
	exited  bool
	nspawn  int
	parkSeq int64
	started bool
}

// Choice is one enabled scheduling alternative.
type Choice struct {
	T    *Thread // nil for an environment event
	Env  *EnvEvent
	Alt  int
	Cost int
	Desc string
}

// EnvEvent is a harness- or shim-defined environment event (tick, cancel, fault...).
type EnvEvent struct {
	Name    string
	Enabled func() bool
	Fire    func()
	Max     int // maximum number of firings per execution (0 = 1)
	fired   int
	removed bool
}

// Step records one scheduling decision (for traces and replay files).
type Step struct {
	Chosen   int      `json:"c"`
	NChoices int      `json:"n"`
	Thread   string   `json:"t"`
	Desc     string   `json:"d"`
	Cost     int      `json:"k,omitempty"`
	Alts     []string `json:"-"`
	Costs    []int    `json:"-"`
}

// Outcome classifies the final state of an execution.
type Outcome struct {
	Kind     string   // "quiescent", "blocked", "crash", "horizon"
	Blocked  []string // ids+descriptions of threads still blocked (Kind=="blocked")
	MainDone bool     // the body thread ("0") ran to completion
	// EnvPending: the execution ended blocked while environment events (timer, tick,
	// cancellation, ...) were still enabled: the system is WAITING for its environment,
	// which is not a deadlock (the explorer takes those events as deviations)
	EnvPending bool
	Crash    string   // panic value + stack (Kind=="crash")
	CrashVal string
	Steps    int
	Cost     int
}

type Sched struct {
	threads  []*Thread
	cur      *Thread
	parked   chan *Thread
	prefix   []int
	Trace    []Step
	envs     []*EnvEvent
	aborting bool
	crash    string
	crashVal string
	parkCtr  int64
	Epoch    int64
	MaxSteps int
	cost     int
	// FreeSwitch: when the previously running thread is blocked or finished, picking any
	// other thread costs nothing (CHESS). Alternatives >0 of an operation and environment
	// events always cost one deviation.
	ReplayErr  string
	closedChan map[uintptr]bool
	Log        []string
	OnAbort    []func()
	MapAlts    bool // offer reversed map-iteration order as an environment alternative
	progress   *int64
}

var epochCtr int64

// Logf appends to the per-execution observation log (harness use).
func Logf(format string, a ...any) {
	if S != nil {
		S.Log = append(S.Log, fmt.Sprintf(format, a...))
	}
}

// CurID returns the id of the running managed thread ("" in passthrough mode).
func CurID() string {
	if S == nil || S.cur == nil {
		return ""
	}
	return S.cur.ID
}

var globalProgress int64

func init() {
	// Watchdog: a released thread that blocks inside the Go runtime (unmodelled blocking)
	// or spins forever would hang the scheduler. This is broken machinery, never a violation.
	go func() {
		last := int64(-1)
		stale := 0
		for {
			time.Sleep(5 * time.Second)
			if atomic.LoadInt32(&watching) == 0 {
				last = -1
				stale = 0
				continue
			}
			p := atomic.LoadInt64(&globalProgress)
			if p == last {
				stale++
				if stale >= 12 {
					buf := make([]byte, 1<<20)
					n := runtime.Stack(buf, true)
					fmt.Fprintf(os.Stderr, "BROKEN: no scheduler progress for 60s (unmodelled blocking or endless loop between points)\n%s\n", buf[:n])
					os.Exit(2)
				}
			} else {
				stale = 0
				last = p
			}
		}
	}()
}

var watching int32

// Run executes body as managed thread "0" under a fresh scheduler, following the choice
// prefix and then choice 0 at every later point. It returns the scheduler (trace, log)
// and the outcome. setup, if non-nil, runs on the scheduler goroutine before the body
// starts (to register environment events).
func Run(prefix []int, maxSteps int, body func()) (*Sched, Outcome) {
	s := &Sched{parked: make(chan *Thread), prefix: prefix, MaxSteps: maxSteps, closedChan: map[uintptr]bool{}}
	s.Epoch = atomic.AddInt64(&epochCtr, 1)
	if S != nil {
		panic("vrt: nested Run")
	}
	S = s
	atomic.StoreInt32(&watching, 1)
	defer func() { atomic.StoreInt32(&watching, 0); S = nil }()
	s.spawn(nil, "main", body)
	out := s.loop()
	return s, out
}

func (s *Sched) spawn(parent *Thread, site string, f func()) *Thread {
	t := &Thread{Site: site, gate: make(chan struct{})}
	if parent == nil {
		t.ID = "0"
	} else {
		t.ID = fmt.Sprintf("%s.%d", parent.ID, parent.nspawn)
		parent.nspawn++
	}
	t.pending = &Op{kind: opStart, Desc: "start"}
	s.parkCtr++
	t.parkSeq = s.parkCtr
	s.threads = append(s.threads, t)
	go func() {
		<-t.gate
		defer func() {
			if r := recover(); r != nil {
				if s.crash == "" {
					s.crashVal = fmt.Sprint(r)
					s.crash = fmt.Sprintf("panic in thread %s (%s): %v\n%s", t.ID, t.Site, r, debug.Stack())
				}
			}
			t.exited = true
			t.pending = nil
			s.parked <- t
		}()
		if s.aborting {
			return
		}
		t.started = true
		t.pending = nil
		f()
	}()
	return t
}

// Go starts f as a managed thread (or a plain goroutine in passthrough mode).
func Go(site string, f func()) {
	s := S
	if s == nil {
		go f()
		return
	}
	if s.aborting {
		return
	}
	s.spawn(s.cur, site, f)
}

// point parks the running thread with the given pending operation and returns once the
// scheduler has chosen it; the granted alternative is returned.
func (s *Sched) point(op *Op) int {
	t := s.cur
	if s.aborting {
		runtime.Goexit()
	}
	t.pending = op
	s.parkCtr++
	t.parkSeq = s.parkCtr
	s.parked <- t
	<-t.gate
	if s.aborting {
		runtime.Goexit()
	}
	t.pending = nil
	return t.alt
}

// Point is a visible operation with a readiness predicate: alts() returns the number of
// enabled alternatives (0 = blocked). The granted alternative index is returned; the
// caller then performs the effect (it is the only thread running).
func Point(desc string, obj any, alts func() int) int {
	s := S
	if s == nil {
		return 0
	}
	return s.point(&Op{kind: opSimple, Desc: desc, Obj: obj, alts: alts})
}

func one() int { return 1 }

// Yield is a bare scheduling point ("this call takes time"). In passthrough mode with
// VERIF_FREE_RUN set (the auxiliary -race pass) it yields the processor pseudo-randomly
// (seeded by VERIF_SEED) so that free-running goroutines actually interleave.
func Yield(tag string) {
	if S != nil {
		S.point(&Op{kind: opSimple, Desc: "yield " + tag, alts: one})
		return
	}
	if freeRun {
		n := atomic.AddUint64(&freeCtr, 0x9E3779B97F4A7C15)
		if (n^freeSeed)>>61 < 3 {
			runtime.Gosched()
		}
	}
}

var (
	freeRun  = os.Getenv("VERIF_FREE_RUN") != ""
	freeCtr  uint64
	freeSeed = func() uint64 {
		var s uint64 = 1
		fmt.Sscan(os.Getenv("VERIF_SEED"), &s)
		return s * 0xBF58476D1CE4E5B9
	}()
)

// Aborting reports whether the current execution is being torn down (operations become
// no-ops so that deferred functions can unwind).
func Aborting() bool { return S != nil && S.aborting }

// AddEnv registers an environment event for the current execution.
func AddEnv(e *EnvEvent) *EnvEvent {
	if S != nil {
		S.envs = append(S.envs, e)
	}
	return e
}

// RemoveEnv disables an environment event for the rest of the execution.
func RemoveEnv(e *EnvEvent) {
	if e != nil {
		e.removed = true
	}
}

func (s *Sched) opAlts(t *Thread) int {
	op := t.pending
	if op == nil {
		return 0
	}
	switch op.kind {
	case opStart:
		return 1
	case opSimple:
		return op.alts()
	case opChan:
		if op.done {
			return 1
		}
		return s.chanAlts(t, op)
	}
	return 0
}

// enabled computes the canonical choice list: the previously running thread first (if
// enabled), then the other threads in id order, then environment events.
func (s *Sched) enabled(prev *Thread) []Choice {
	var out []Choice
	prevEnabled := false
	ths := make([]*Thread, 0, len(s.threads))
	for _, t := range s.threads {
		if !t.exited {
			ths = append(ths, t)
		}
	}
	sort.SliceStable(ths, func(i, j int) bool { return lessID(ths[i].ID, ths[j].ID) })
	if prev != nil && !prev.exited {
		if n := s.opAlts(prev); n > 0 {
			prevEnabled = true
			for a := 0; a < n; a++ {
				c := 0
				if a > 0 {
					c = 1
				}
				out = append(out, Choice{T: prev, Alt: a, Cost: c, Desc: prev.pending.Desc})
			}
		}
	}
	for _, t := range ths {
		if t == prev {
			continue
		}
		n := s.opAlts(t)
		for a := 0; a < n; a++ {
			c := 0
			if prevEnabled || a > 0 {
				c = 1
			}
			out = append(out, Choice{T: t, Alt: a, Cost: c, Desc: t.pending.Desc})
		}
	}
	for _, e := range s.envs {
		max := e.Max
		if max == 0 {
			max = 1
		}
		if e.removed || e.fired >= max || !e.Enabled() {
			continue
		}
		out = append(out, Choice{Env: e, Cost: 1, Desc: "env " + e.Name})
	}
	return out
}

func lessID(a, b string) bool {
	as, bs := strings.Split(a, "."), strings.Split(b, ".")
	for i := 0; i < len(as) && i < len(bs); i++ {
		if as[i] != bs[i] {
			var x, y int
			fmt.Sscan(as[i], &x)
			fmt.Sscan(bs[i], &y)
			return x < y
		}
	}
	return len(as) < len(bs)
}

func (s *Sched) loop() Outcome {
	var prev *Thread
	steps := 0
	for {
		atomic.AddInt64(&globalProgress, 1)
		if s.crash != "" {
			s.abort()
			return Outcome{Kind: "crash", Crash: s.crash, CrashVal: s.crashVal, Steps: steps, Cost: s.cost, MainDone: s.threads[0].exited}
		}
		choices := s.enabled(prev)
		// only environment events left while every thread is finished: quiescent.
		threadsAlive := false
		anyThreadChoice := false
		for _, t := range s.threads {
			if !t.exited {
				threadsAlive = true
			}
		}
		for _, c := range choices {
			if c.T != nil {
				anyThreadChoice = true
			}
		}
		if !threadsAlive {
			return Outcome{Kind: "quiescent", Steps: steps, Cost: s.cost, MainDone: true}
		}
		idx := 0
		replaying := len(s.Trace) < len(s.prefix)
		if replaying {
			idx = s.prefix[len(s.Trace)]
			if idx < 0 || idx >= len(choices) {
				s.ReplayErr = fmt.Sprintf("replay divergence at step %d: choice %d of %d", len(s.Trace), idx, len(choices))
				s.abort()
				return Outcome{Kind: "replay-divergence", Steps: steps}
			}
		} else if !anyThreadChoice {
			// No thread can move. Environment events alone could still unblock something,
			// but taking one is a deviation the explorer must decide on; by default the
			// execution ends here as "blocked".
			var bl []string
			for _, t := range s.threads {
				if !t.exited {
					bl = append(bl, fmt.Sprintf("%s@%s: %s", t.ID, t.Site, t.pending.Desc))
				}
			}
			// record the point so the explorer can branch into the environment events
			if len(choices) > 0 {
				st := Step{Chosen: -1, NChoices: len(choices), Thread: "-", Desc: "blocked"}
				for _, c := range choices {
					st.Alts = append(st.Alts, c.Desc)
					st.Costs = append(st.Costs, c.Cost)
				}
				s.Trace = append(s.Trace, st)
			}
			main := s.threads[0].exited
			s.abort()
			return Outcome{Kind: "blocked", Blocked: bl, Steps: steps, Cost: s.cost, MainDone: main, EnvPending: len(choices) > 0}
		}
		if steps >= s.MaxSteps && s.MaxSteps > 0 {
			main := s.threads[0].exited
			s.abort()
			return Outcome{Kind: "horizon", Steps: steps, Cost: s.cost, MainDone: main}
		}
		ch := choices[idx]
		st := Step{Chosen: idx, NChoices: len(choices), Desc: ch.Desc, Cost: ch.Cost}
		for _, c := range choices {
			if c.T != nil {
				st.Alts = append(st.Alts, c.T.ID+":"+c.Desc)
			} else {
				st.Alts = append(st.Alts, c.Desc)
			}
			st.Costs = append(st.Costs, c.Cost)
		}
		s.cost += ch.Cost
		steps++
		if ch.Env != nil {
			st.Thread = "env"
			s.Trace = append(s.Trace, st)
			ch.Env.fired++
			s.cur = nil
			ch.Env.Fire()
			// prev stays: an environment event does not change which thread "was running"
			continue
		}
		st.Thread = ch.T.ID
		s.Trace = append(s.Trace, st)
		t := ch.T
		t.alt = ch.Alt
		if t.pending != nil && t.pending.kind == opChan && !t.pending.done {
			s.chanCommit(t, t.pending, ch.Alt)
		}
		s.cur = t
		t.gate <- struct{}{}
		if x := <-s.parked; x != t {
			panic(fmt.Sprintf("vrt: thread %s (%s) parked while thread %s (%s) was running: an operation was reached from a goroutine the scheduler does not manage", x.ID, x.Site, t.ID, t.Site))
		}
		if !t.exited && t.pending == nil {
			panic(fmt.Sprintf("vrt: thread %s (%s) parked without a pending operation", t.ID, t.Site))
		}
		prev = t
	}
}

// abort tears down every remaining thread (Goexit at its point).
func (s *Sched) abort() {
	s.aborting = true
	for _, f := range s.OnAbort {
		f()
	}
	for _, t := range s.threads {
		if t.exited {
			continue
		}
		s.cur = t
		t.gate <- struct{}{}
		for !t.exited {
			x := <-s.parked
			_ = x
		}
	}
}

// GoEnv starts a managed thread from an environment event (runs on the scheduler
// goroutine; the new thread is a child of the body thread).
func GoEnv(site string, f func()) {
	s := S
	if s == nil {
		go f()
		return
	}
	s.spawn(s.threads[0], site, f)
}

package c20

import (
	"encoding/json"
	"fmt"
	"sort"
	"strconv"
	"strings"
)

// ---------------------------------------------------------------------------------------
// The reference: written directly from the property statement and the probe schema, never
// from gqlgen's generated code. For every representation it decides, from THAT
// representation alone, which entity resolver its own key selects and what the stub entity
// resolver returns for that key.

type keyDef struct {
	Resolver string     // Go name of the stub resolver
	Paths    [][]string // key field paths
	Kinds    []string   // leaf scalar kinds: "ID", "String", "Int"
}

type entDef struct {
	Multi    bool
	Keys     []keyDef // in @key declaration order
	Requires bool     // has `cost @requires(fields:"weight")`
	Req3     bool     // has `total @requires(fields:"qty label ratio")` (Int, String, Float)
}

var entities = map[string]entDef{
	"Single":  {Keys: []keyDef{{"FindSingleByID", [][]string{{"id"}}, []string{"ID"}}}},
	"TwoKeys": {Keys: []keyDef{{"FindTwoKeysByID", [][]string{{"id"}}, []string{"ID"}}, {"FindTwoKeysBySku", [][]string{{"sku"}}, []string{"String"}}}},
	"Nested":  {Keys: []keyDef{{"FindNestedByOwnerIDAndSlot", [][]string{{"owner", "id"}, {"slot"}}, []string{"ID", "Int"}}}},
	"Multi":   {Multi: true, Keys: []keyDef{{"FindManyMultiByIDs", [][]string{{"id"}}, []string{"ID"}}}},
	"MultiTwo": {Multi: true, Keys: []keyDef{{"FindManyMultiTwoByIDs", [][]string{{"id"}}, []string{"ID"}},
		{"FindManyMultiTwoBySkus", [][]string{{"sku"}}, []string{"String"}}}},
	"Req":       {Requires: true, Keys: []keyDef{{"FindReqByID", [][]string{{"id"}}, []string{"ID"}}}},
	"MultiReq":  {Multi: true, Requires: true, Keys: []keyDef{{"FindManyMultiReqByIDs", [][]string{{"id"}}, []string{"ID"}}}},
	"Req3":      {Req3: true, Keys: []keyDef{{"FindReq3ByID", [][]string{{"id"}}, []string{"ID"}}}},
	"MultiReq3": {Multi: true, Req3: true, Keys: []keyDef{{"FindManyMultiReq3ByIDs", [][]string{{"id"}}, []string{"ID"}}}},
	"Tri": {Keys: []keyDef{{"FindTriByUpcAndRegion", [][]string{{"upc"}, {"region"}}, []string{"String", "String"}},
		{"FindTriBySku", [][]string{{"sku"}}, []string{"String"}}, {"FindTriByID", [][]string{{"id"}}, []string{"ID"}}}},
	"MultiTri": {Multi: true, Keys: []keyDef{{"FindManyMultiTriByUpcAndRegions", [][]string{{"upc"}, {"region"}}, []string{"String", "String"}},
		{"FindManyMultiTriBySkus", [][]string{{"sku"}}, []string{"String"}}, {"FindManyMultiTriByIDs", [][]string{{"id"}}, []string{"ID"}}}},
}

// Query returns the _entities query of a requires mode. Only fields whose value the
// property statement defines in that mode are selected (see Assumptions).
func Query(mode string) string {
	req, mreq := "id weight cost", "id weight cost"
	req3, mreq3 := "id qty label ratio total", "id qty label ratio total"
	switch mode {
	case "explicit":
		mreq = "id weight"
		mreq3 = "id qty label ratio"
	case "computed":
		req, mreq = "id cost", "id cost"
		req3, mreq3 = "id total", "id total"
	}
	return `query($r:[_Any!]!){_entities(representations:$r){__typename ... on Single{id v} ... on TwoKeys{id sku v} ` +
		`... on Nested{owner{id v} slot v} ... on Multi{id v} ... on MultiTwo{id sku v} ... on Req{` + req + `} ... on MultiReq{` + mreq + `} ` +
		`... on Tri{upc region sku id v} ... on MultiTri{upc region sku id v} ... on Req3{` + req3 + `} ... on MultiReq3{` + mreq3 + `}}}`
}

// lookup walks a key path; ok=false when a field is missing or an inner value is not an object.
func lookup(rep map[string]any, path []string) (any, bool) {
	var cur any = rep
	for _, p := range path {
		m, isMap := cur.(map[string]any)
		if !isMap {
			return nil, false
		}
		v, present := m[p]
		if !present {
			return nil, false
		}
		cur = v
	}
	return cur, true
}

func leaf(kind string, v any) (string, bool) {
	switch kind {
	case "ID":
		switch x := v.(type) {
		case string:
			return x, true
		case json.Number:
			return x.String(), true
		}
	case "String":
		if s, ok := v.(string); ok {
			return s, true
		}
	case "Int":
		if n, ok := v.(json.Number); ok {
			if i, err := strconv.Atoi(n.String()); err == nil {
				return strconv.Itoa(i), true
			}
		}
	}
	return "", false
}

// lenientLeaf: values the GraphQL spec does not accept for the scalar but gqlgen's scalars
// document as coercible (booleans and numbers to ID / String; null to "", "null", 0). Whether such a key is
// accepted is input coercion (property C02), not index bookkeeping: the reference accepts
// either answer for them (null + error, or the entity of the coerced key).
func lenientLeaf(kind string, v any) (string, bool) {
	if v == nil { // a null component of a key that is not all null is read as the zero value
		switch kind {
		case "String":
			return "", true
		case "ID":
			return "null", true
		case "Int":
			return "0", true
		}
	}
	if kind != "ID" && kind != "String" {
		return "", false
	}
	switch x := v.(type) {
	case bool:
		return strconv.FormatBool(x), true
	case json.Number:
		return x.String(), true
	}
	return "", false
}

// selected is what a representation's own key says.
type selected struct {
	kd      keyDef
	args    []string
	ok      bool     // a key is selected and every component is a valid value of its scalar
	chosen  bool     // a key is selected (all fields present, not all null); !ok then means a component is null / ill-typed
	lenient []string // !ok, but gqlgen's lenient scalars coerce every ill-typed component: the coerced arguments
}

// selectKey: the first @key all of whose fields are present and not all null.
func selectKey(ent entDef, rep map[string]any) selected {
	for _, k := range ent.Keys {
		usable, allNull := true, true
		vals := make([]any, len(k.Paths))
		for i, p := range k.Paths {
			v, present := lookup(rep, p)
			if !present {
				usable = false
				break
			}
			vals[i] = v
			if v != nil {
				allNull = false
			}
		}
		if !usable || allNull {
			continue
		}
		out := selected{kd: k, chosen: true, ok: true}
		lenientOK := true
		for i, v := range vals {
			if s, good := leaf(k.Kinds[i], v); good {
				out.args = append(out.args, s)
				out.lenient = append(out.lenient, s)
				continue
			}
			out.ok = false
			if s, good := lenientLeaf(k.Kinds[i], v); good {
				out.lenient = append(out.lenient, s)
			} else {
				lenientOK = false
			}
		}
		if out.ok || !lenientOK {
			out.lenient = nil
		}
		if !out.ok {
			out.args = nil
		}
		return out
	}
	return selected{}
}

func q(s string) string { b, _ := json.Marshal(s); return string(b) }

// StubCost is the cost the stub entity resolvers put into Req / MultiReq entities.
func StubCost(id string) int {
	n := 500
	for i := 0; i < len(id); i++ {
		n += int(id[i])
	}
	return n
}

// valueJSON is the response element for an entity resolved from (typ, key kd, args) with
// required weight w, in the given mode.
func valueJSON(mode, typ string, kd keyDef, args []string, w int) string {
	switch typ {
	case "Single":
		return `{"__typename":"Single","id":` + q(args[0]) + `,"v":` + q("Single/id="+args[0]) + `}`
	case "Multi":
		return `{"__typename":"Multi","id":` + q(args[0]) + `,"v":` + q("Multi/id="+args[0]) + `}`
	case "TwoKeys", "MultiTwo":
		if strings.HasSuffix(kd.Resolver, "ID") || strings.HasSuffix(kd.Resolver, "IDs") {
			return `{"__typename":"` + typ + `","id":` + q(args[0]) + `,"sku":` + q("sku-of-"+args[0]) + `,"v":` + q(typ+"/id="+args[0]) + `}`
		}
		return `{"__typename":"` + typ + `","id":` + q("id-of-"+args[0]) + `,"sku":` + q(args[0]) + `,"v":` + q(typ+"/sku="+args[0]) + `}`
	case "Tri", "MultiTri":
		var upc, region, sku, id, v string
		switch kd.Paths[0][0] {
		case "upc": // compound key upc region
			upc, region = args[0], args[1]
			sku, id, v = "sku-of-"+upc+"/"+region, "id-of-"+upc+"/"+region, typ+"/upc="+upc+",region="+region
		case "sku":
			sku = args[0]
			upc, region, id, v = "upc-of-"+sku, "region-of-"+sku, "id-of-"+sku, typ+"/sku="+sku
		case "id":
			id = args[0]
			upc, region, sku, v = "upc-of-"+id, "region-of-"+id, "sku-of-"+id, typ+"/id="+id
		}
		return `{"__typename":"` + typ + `","upc":` + q(upc) + `,"region":` + q(region) + `,"sku":` + q(sku) + `,"id":` + q(id) + `,"v":` + q(v) + `}`
	case "Nested":
		return `{"__typename":"Nested","owner":{"id":` + q(args[0]) + `,"v":"owner-of-nested"},"slot":` + args[1] + `,"v":` + q("Nested/"+args[0]+","+args[1]) + `}`
	case "Req":
		switch mode {
		case "explicit":
			return fmt.Sprintf(`{"__typename":"Req","id":%s,"weight":%d,"cost":%d}`, q(args[0]), w, 1000+w)
		case "computed":
			return fmt.Sprintf(`{"__typename":"Req","id":%s,"cost":%d}`, q(args[0]), 1000+w)
		}
		return fmt.Sprintf(`{"__typename":"Req","id":%s,"weight":%d,"cost":%d}`, q(args[0]), w, StubCost(args[0]))
	case "MultiReq":
		switch mode {
		case "explicit":
			return fmt.Sprintf(`{"__typename":"MultiReq","id":%s,"weight":%d}`, q(args[0]), w)
		case "computed":
			return fmt.Sprintf(`{"__typename":"MultiReq","id":%s,"cost":%d}`, q(args[0]), 1000+w)
		}
		return fmt.Sprintf(`{"__typename":"MultiReq","id":%s,"weight":%d,"cost":%d}`, q(args[0]), w, StubCost(args[0]))
	}
	panic("c20: no value for type " + typ)
}

// Want is the expected element at one index.
type Want struct {
	Status string `json:"status"` // "value" | "fail" (null with an error) | "nil" (resolver found nothing: null, error optional)
	JSON   string `json:"json,omitempty"`
	Type   string `json:"type,omitempty"`     // __typename when it names an entity of the schema
	Sel    string `json:"resolver,omitempty"` // resolver its own key selects ("" = unresolvable)
	Key    string `json:"key,omitempty"`
	// Chosen: the resolver whose @key the representation carries, even when a key component
	// is ill-typed (Sel is "" then). IllTyped: such a representation.
	Chosen   string `json:"key_of_resolver,omitempty"`
	IllTyped bool   `json:"ill_typed_key,omitempty"`
	// Lenient: for an ill-typed key that gqlgen's scalars coerce, the entity of the coerced key
	// (accepted as an alternative answer, see lenientLeaf).
	Lenient string `json:"lenient_alternative,omitempty"`
	// ReqIllTyped: a required (@requires) field of this representation has a value its scalar
	// rejects (it fails this representation only).
	ReqIllTyped bool `json:"ill_typed_required_field,omitempty"`
}

type Ref struct {
	Want []Want
	// FaultReached: the reference makes the faulted call, and the fault is an error or a panic:
	// an error carrying the FAULT token must then be present.
	FaultReached bool
	Calls        []string // stub entity-resolver calls the reference makes (sorted; informational)
}

func (f *Fault) hits(resolver, key string) bool {
	return f != nil && f.Resolver == resolver && f.Key == key
}

// Total3 is what the user-written populators / computed resolvers derive from the three
// required fields; StubTotal is what the stub entity resolvers put into `total`.
func Total3(qty int, label string, ratio float64) string {
	return fmt.Sprintf("%d|%s|%g", qty, label, ratio)
}
func StubTotal(id string) string { return "total-of-" + id }

// Requires3 reads the three required fields strictly (what user code does with the
// representation it is handed): each must be present with a value of its own type.
func Requires3(rep map[string]any) (qty int, label string, ratio float64, err error) {
	qs, ok := leaf("Int", rep["qty"])
	if !ok {
		return 0, "", 0, fmt.Errorf("required field qty missing or not an Int")
	}
	qty, _ = strconv.Atoi(qs)
	label, ok = rep["label"].(string)
	if !ok {
		return 0, "", 0, fmt.Errorf("required field label missing or not a String")
	}
	n, ok := rep["ratio"].(json.Number)
	if !ok {
		return 0, "", 0, fmt.Errorf("required field ratio missing or not a Float")
	}
	ratio, perr := strconv.ParseFloat(n.String(), 64)
	if perr != nil {
		return 0, "", 0, perr
	}
	return qty, label, ratio, nil
}

// req3 evaluates the required fields of a Req3 / MultiReq3 representation whose entity
// resolver succeeded. Generated code copies required fields with the field's scalar
// unmarshaller ("inline": default mode, and the multi path in every mode); a value the
// scalar rejects fails the representation; absent / null (read as the zero value) and a
// number for String (coerced) are gqlgen's lenient scalars: either answer is accepted.
// User code (explicit populator of Req3, computed `total` resolvers) is strict.
func req3(mode string, multi bool, id string, rep map[string]any) (status, js, lenient string, illTyped bool) {
	typ := "Req3"
	if multi {
		typ = "MultiReq3"
	}
	qty, label, ratio, strictErr := Requires3(rep)
	// inline evaluation
	inlineFail, inlineLenient := false, false
	field := func(kind, name string) string {
		v, present := rep[name]
		if s, ok := leaf(kind, v); ok && present {
			return s
		}
		if kind == "Float" {
			if n, ok := v.(json.Number); ok {
				return n.String()
			}
		}
		if !present || v == nil {
			inlineLenient = true
			if kind == "String" {
				return ""
			}
			return "0"
		}
		if s, ok := lenientLeaf(kind, v); ok {
			inlineLenient = true
			return s
		}
		inlineFail = true
		return ""
	}
	iq, il, ir := field("Int", "qty"), field("String", "label"), field("Float", "ratio")
	render := func(q, l, r, total string, withFields, withTotal bool) string {
		out := `{"__typename":"` + typ + `","id":` + jq(id)
		if withFields {
			out += `,"qty":` + q + `,"label":` + jq(l) + `,"ratio":` + r
		}
		if withTotal {
			out += `,"total":` + jq(total)
		}
		return out + "}"
	}
	inline := mode == "default" || (mode == "explicit" && multi)
	switch {
	case inline:
		withTotal := mode == "default"
		if inlineFail {
			return "fail", "", "", true
		}
		v := render(iq, il, ir, StubTotal(id), true, withTotal)
		if inlineLenient {
			return "fail", "", v, false
		}
		return "value", v, "", false
	case mode == "explicit": // Req3: the populator is handed the representation
		if strictErr != nil {
			return "fail", "", "", false
		}
		return "value", render(iq, il, ir, Total3(qty, label, ratio), true, true), "", false
	default: // computed: `total` is computed by the field resolver from the representation
		if strictErr != nil || (multi && inlineFail) {
			return "fail", "", "", multi && inlineFail
		}
		return "value", render("", "", "", Total3(qty, label, ratio), false, true), "", false
	}
}

func jq(s string) string { return q(s) }

// Reference evaluates every representation on its own.
func Reference(mode string, reps []map[string]any, fault *Fault) *Ref {
	r := &Ref{Want: make([]Want, len(reps))}
	sel := make([]selected, len(reps))
	for i, rep := range reps {
		w := &r.Want[i]
		w.Status = "fail"
		typ, isStr := rep["__typename"].(string)
		ent, known := entities[typ]
		if !isStr || !known {
			continue
		}
		w.Type = typ
		sel[i] = selectKey(ent, rep)
		if sel[i].chosen {
			w.Chosen = sel[i].kd.Resolver
			w.IllTyped = !sel[i].ok
		}
		if sel[i].ok {
			w.Sel = sel[i].kd.Resolver
			w.Key = strings.Join(sel[i].args, ",")
		} else if sel[i].lenient != nil {
			weight := 0
			good := true
			if ent.Requires {
				ws, ok := leaf("Int", rep["weight"])
				good = ok
				weight, _ = strconv.Atoi(ws)
			}
			if good {
				w.Lenient = valueJSON(mode, typ, sel[i].kd, sel[i].lenient, weight)
			}
		}
	}
	// the batch a multi representation belongs to: same type, same selected resolver
	batchKeys := func(i int) []string {
		var ks []string
		for j := range reps {
			if r.Want[j].Type == r.Want[i].Type && r.Want[j].Sel == r.Want[i].Sel && sel[j].ok {
				ks = append(ks, r.Want[j].Key)
			}
		}
		return ks
	}
	seenBatch := map[string]bool{}
	for i, rep := range reps {
		w := &r.Want[i]
		if w.Sel == "" {
			continue
		}
		ent := entities[w.Type]
		status := "value"
		if ent.Multi {
			ks := batchKeys(i)
			if !seenBatch[w.Type+"/"+w.Sel] {
				seenBatch[w.Type+"/"+w.Sel] = true
				r.Calls = append(r.Calls, w.Sel+"("+strings.Join(ks, " ")+")")
			}
			if fault != nil && fault.Resolver == w.Sel {
				for _, k := range ks {
					if k == fault.Key {
						switch fault.Kind {
						case "error", "panic": // a failing batch call fails every representation of that call
							status = "fail"
							r.FaultReached = true
						case "nil":
							if w.Key == fault.Key {
								status = "nil"
							}
						}
					}
				}
			}
		} else {
			r.Calls = append(r.Calls, w.Sel+"("+w.Key+")")
			if fault.hits(w.Sel, w.Key) {
				switch fault.Kind {
				case "error", "panic":
					status = "fail"
					r.FaultReached = true
				case "nil":
					status = "nil"
				}
			}
		}
		weight := 0
		if status == "value" && ent.Requires {
			ws, ok := leaf("Int", rep["weight"])
			if !ok {
				status = "fail" // the required field is missing from this representation
			} else {
				weight, _ = strconv.Atoi(ws)
			}
		}
		var js3 string
		if status == "value" && ent.Req3 {
			status, js3, w.Lenient, w.ReqIllTyped = req3(mode, ent.Multi, sel[i].args[0], rep)
		}
		if status == "value" {
			var extra string
			switch {
			case mode == "explicit" && w.Type == "Req":
				extra = "PopulateReqRequires"
			case mode == "explicit" && w.Type == "Req3":
				extra = "PopulateReq3Requires"
			case mode == "computed" && ent.Requires:
				extra = w.Type + ".cost"
			case mode == "computed" && ent.Req3:
				extra = w.Type + ".total"
			}
			if extra != "" && fault.hits(extra, sel[i].args[0]) && fault.Kind != "nil" {
				status = "fail"
				r.FaultReached = true
			}
		}
		w.Status = status
		if status == "value" {
			if ent.Req3 {
				w.JSON = js3
			} else {
				w.JSON = valueJSON(mode, w.Type, sel[i].kd, sel[i].args, weight)
			}
		}
	}
	sort.Strings(r.Calls)
	return r
}

// ErrBounds: how many errors the response may carry, counting only indices not in skip.
// Every failed element needs an error; errors carry no index (gqlgen reports them on path
// ["_entities"]), and one failing batch call yields one error for all its representations,
// so failed representations of one multi-resolver type may share an error.
func ErrBounds(want []Want, skip map[int]bool) (lo, hi int) {
	multiFailed := map[string]bool{}
	for i, w := range want {
		if skip[i] {
			continue
		}
		switch w.Status {
		case "fail":
			hi++
			if ent, ok := entities[w.Type]; ok && ent.Multi {
				multiFailed[w.Type] = true
			} else {
				lo++
			}
		case "nil":
			hi++
		}
	}
	return lo + len(multiFailed), hi
}

// FaultPositions lists every single fault applicable to the list: each kind at each stub
// call the reference makes (entity resolvers; requires populators in explicit mode; the
// computed `cost` resolvers in computed mode).
func FaultPositions(mode string, reps []map[string]any) []Fault {
	ref := Reference(mode, reps, nil)
	seen := map[string]bool{}
	var out []Fault
	add := func(res, key string, kinds ...string) {
		for _, k := range kinds {
			f := Fault{res, key, k}
			if !seen[f.String()] {
				seen[f.String()] = true
				out = append(out, f)
			}
		}
	}
	for _, w := range ref.Want {
		if w.Sel == "" {
			continue
		}
		add(w.Sel, w.Key, "error", "panic", "nil")
		if w.Status != "value" {
			continue
		}
		if mode == "explicit" && w.Type == "Req" {
			add("PopulateReqRequires", w.Key, "error", "panic")
		}
		if mode == "explicit" && w.Type == "Req3" {
			add("PopulateReq3Requires", w.Key, "error", "panic")
		}
		if mode == "computed" && entities[w.Type].Req3 {
			add(w.Type+".total", w.Key, "error", "panic")
		}
		if mode == "computed" && entities[w.Type].Requires {
			add(w.Type+".cost", w.Key, "error", "panic")
		}
	}
	return out
}

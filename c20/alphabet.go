// Package c20 is the harness-side half of the C20 check ("federation _entities answers each
// representation at its own index"): the representation alphabet, the fault plan, the
// logging entity-resolver environment, the reference written directly from the property
// statement, and the worker main that explores every schedule of every enumerated
// (representation list, fault) pair on the generated federation code.
package c20

import (
	"bytes"
	"encoding/json"
	"fmt"
	"strings"
)

// Letter is one representation of the alphabet.
type Letter struct {
	Name string
	JSON string
	// WellFormed: a representation the federation spec allows (known __typename, a complete
	// non-null key). Representations without their required (@requires) field are not in the
	// alphabet: the statement does not define their answer (gqlgen reads the field as 0).
	WellFormed bool
}

// Alphabet, simplest first. Two different keys / key values per resolver kind so that the
// oracle can tell WHICH representation an element was resolved from.
var Alphabet = []Letter{
	{"S1", `{"__typename":"Single","id":"1"}`, true},
	{"Ti", `{"__typename":"TwoKeys","id":"1"}`, true},
	{"Ts", `{"__typename":"TwoKeys","sku":"S2"}`, true},
	{"M1", `{"__typename":"Multi","id":"1"}`, true},
	{"M2", `{"__typename":"Multi","id":"2"}`, true},
	{"R1", `{"__typename":"Req","id":"1","weight":7}`, true},
	{"R2", `{"__typename":"Req","id":"2","weight":9}`, true},
	{"MTi", `{"__typename":"MultiTwo","id":"1"}`, true},
	{"MTs", `{"__typename":"MultiTwo","sku":"S2"}`, true},
	{"N", `{"__typename":"Nested","owner":{"id":"1"},"slot":3}`, true},
	{"MR1", `{"__typename":"MultiReq","id":"1","weight":7}`, true},
	{"MR2", `{"__typename":"MultiReq","id":"2","weight":9}`, true},
	{"S2", `{"__typename":"Single","id":"2"}`, true},
	{"Unk", `{"__typename":"Nope","id":"1"}`, false},
	{"NoT", `{"id":"1"}`, false},
	{"SnoK", `{"__typename":"Single"}`, false},
	{"Snull", `{"__typename":"Single","id":null}`, false},
	{"Nbad", `{"__typename":"Nested","owner":"x","slot":1}`, false},
	{"MnoK", `{"__typename":"Multi"}`, false},
	// key VALUES of the wrong JSON type (_Any is not validated): object / list where ID! /
	// String! is expected, string / bool where Int! is expected; single, multi and nested keys
	{"MidObj", `{"__typename":"Multi","id":{"a":1}}`, false},
	{"SidObj", `{"__typename":"Single","id":{"a":1}}`, false},
	{"MRidLst", `{"__typename":"MultiReq","id":["1"],"weight":5}`, false},
	{"MTskuObj", `{"__typename":"MultiTwo","sku":{"a":1}}`, false},
	{"NslotStr", `{"__typename":"Nested","owner":{"id":"1"},"slot":"x"}`, false},
	{"TskuLst", `{"__typename":"TwoKeys","sku":["S2"]}`, false},
	{"NidLst", `{"__typename":"Nested","owner":{"id":["1"]},"slot":3}`, false},
	{"MidLst", `{"__typename":"Multi","id":["1"]}`, false},
	// a number for ID! is valid; bool for ID! and number for String! are coerced by gqlgen's
	// lenient scalars (either answer accepted, see lenientLeaf)
	{"SidNum", `{"__typename":"Single","id":7}`, true},
	{"MidBool", `{"__typename":"Multi","id":true}`, false},
	{"MTskuNum", `{"__typename":"MultiTwo","sku":5}`, false},
}

// CoreK: the letters before the wrong-typed key values.
const CoreK = 19

// KeyCombos: for the three-key entities Tri (single resolvers) and MultiTri (batch
// resolvers), every combination of {present non-null (v), present null (n), absent (a)}
// over the key fields upc, region, sku, id: 2 x 81 representations. Names "Tri:vanv".
var KeyCombos = keyCombos()

func keyCombos() []Letter {
	fields := []string{"upc", "region", "sku", "id"}
	vals := []string{`"u1"`, `"r1"`, `"k1"`, `"p1"`}
	var out []Letter
	for _, typ := range []string{"Tri", "MultiTri"} {
		for c := 0; c < 81; c++ {
			name, js := typ+":", `{"__typename":"`+typ+`"`
			for f, x := 0, c; f < 4; f, x = f+1, x/3 {
				switch x % 3 {
				case 0:
					name += "v"
					js += `,"` + fields[f] + `":` + vals[f]
				case 1:
					name += "n"
					js += `,"` + fields[f] + `":null`
				case 2:
					name += "a"
				}
			}
			out = append(out, Letter{name, js + "}", false})
		}
	}
	return out
}

// ReqCombos: for Req3 (single resolver) and MultiReq3 (batch resolver), whose `total`
// @requires qty: Int!, label: String!, ratio: Float!: every combination, per required field,
// of {W well-typed, A absent, N null, S scalar of the wrong JSON type (string for Int / Float,
// number for String), O object, L list}: 2 x 216 representations. Names "Req3:WSO".
var ReqCombos = reqCombos()

func reqCombos() []Letter {
	fields := []string{"qty", "label", "ratio"}
	vals := map[byte][]string{
		'W': {`4`, `"L"`, `2.5`}, 'N': {`null`, `null`, `null`}, 'S': {`"a lot"`, `5`, `"x"`},
		'O': {`{"a":1}`, `{"a":1}`, `{"a":1}`}, 'L': {`[1]`, `["L"]`, `[2.5]`},
	}
	classes := "WANSOL"
	var out []Letter
	for _, typ := range []string{"Req3", "MultiReq3"} {
		for c := 0; c < 216; c++ {
			name, js := typ+":", `{"__typename":"`+typ+`","id":"1"`
			for f, x := 0, c; f < 3; f, x = f+1, x/6 {
				cl := classes[x%6]
				name += string(cl)
				if cl != 'A' {
					js += `,"` + fields[f] + `":` + vals[cl][f]
				}
			}
			out = append(out, Letter{name, js + "}", name[len(name)-3:] == "WWW"})
		}
	}
	return out
}

// Companions are paired with every key combination (both orders): a well-formed
// representation of the same type with other key values, and one of another type.
var Companions = map[string][]Letter{
	"Tri":       {{"Tri:id9", `{"__typename":"Tri","id":"p9"}`, true}, {"S1", `{"__typename":"Single","id":"1"}`, true}},
	"Req3":      {{"Req3:id9", `{"__typename":"Req3","id":"9","qty":1,"label":"Z","ratio":0.5}`, true}, {"S1", `{"__typename":"Single","id":"1"}`, true}},
	"MultiReq3": {{"MultiReq3:id9", `{"__typename":"MultiReq3","id":"9","qty":1,"label":"Z","ratio":0.5}`, true}, {"S1", `{"__typename":"Single","id":"1"}`, true}},
	"MultiTri":  {{"MultiTri:id9", `{"__typename":"MultiTri","id":"p9"}`, true}, {"S1", `{"__typename":"Single","id":"1"}`, true}},
}

func letter(name string) (Letter, bool) {
	for _, l := range Alphabet {
		if l.Name == name {
			return l, true
		}
	}
	for _, l := range KeyCombos {
		if l.Name == name {
			return l, true
		}
	}
	for _, l := range ReqCombos {
		if l.Name == name {
			return l, true
		}
	}
	for _, ls := range Companions {
		for _, l := range ls {
			if l.Name == name {
				return l, true
			}
		}
	}
	return Letter{}, false
}

// Decode parses a representation exactly like gqlgen's transports do (json.Number).
func Decode(js string) map[string]any {
	d := json.NewDecoder(bytes.NewReader([]byte(js)))
	d.UseNumber()
	var m map[string]any
	if err := d.Decode(&m); err != nil {
		panic(fmt.Sprintf("c20: bad alphabet JSON %s: %v", js, err))
	}
	return m
}

// Fault is a single injected fault: the stub call Resolver(… Key …) fails with Kind.
type Fault struct {
	Resolver string `json:"resolver"`
	Key      string `json:"key"`
	Kind     string `json:"kind"` // "error" | "panic" | "nil"
}

func (f *Fault) String() string {
	if f == nil {
		return "none"
	}
	return f.Resolver + "(" + f.Key + "):" + f.Kind
}

// Case is one enumerated input: a representation list (letter names) plus at most one fault.
type Case struct {
	List  []string `json:"list"`
	Fault *Fault   `json:"fault,omitempty"`
}

func (c Case) Name() string {
	return "[" + strings.Join(c.List, ",") + "] fault=" + c.Fault.String()
}

func (c Case) Reps() []map[string]any {
	out := make([]map[string]any, len(c.List))
	for i, n := range c.List {
		l, ok := letter(n)
		if !ok {
			panic("c20: unknown letter " + n)
		}
		out[i] = Decode(l.JSON)
	}
	return out
}

// Lists enumerates every list of exactly n letters over the first k letters of the alphabet.
func Lists(n, k int) [][]string {
	if n == 0 {
		return [][]string{{}}
	}
	var out [][]string
	for _, pre := range Lists(n-1, k) {
		for _, l := range Alphabet[:k] {
			x := append(append([]string(nil), pre...), l.Name)
			out = append(out, x)
		}
	}
	return out
}

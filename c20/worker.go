package c20

import (
	"encoding/json"
	"fmt"
	"os"
	"strconv"
	"strings"
	"time"

	"verif/common"
	"verif/explore"
	"verif/vrt"
)

// Schedule bounds of a plan entry: a preemption bound n >= 0, or one of these.
const (
	First     = -1   // only the canonical (first) schedule
	NotRun    = -2   // not enumerated
	Unbounded = 1000 // every schedule
)

// LenPlan: what is explored for representation lists of one length.
type LenPlan struct {
	Len     int `json:"len"`
	NoFault int `json:"pb_no_fault"` // schedule bound for the fault-free case
	Fault   int `json:"pb_fault"`    // schedule bound for each single-fault case
	K       int `json:"alphabet"`    // alphabet prefix
}

func boundName(b int) any {
	switch b {
	case First:
		return "canonical schedule only"
	case NotRun:
		return "not enumerated"
	case Unbounded:
		return "none (all schedules)"
	}
	return b
}

// Describe renders a plan for the evidence.
func Describe(plan []LenPlan) []map[string]any {
	var out []map[string]any
	for _, p := range plan {
		out = append(out, map[string]any{"list_length": p.Len, "alphabet_size": p.K, "preemption_bound_fault_free": boundName(p.NoFault), "preemption_bound_each_single_fault": boundName(p.Fault)})
	}
	return out
}

// PlanFor returns the enumeration plan of a tier (VERIF_C20_PLAN overrides: "len:pb:pbf:k,...").
func PlanFor(tier string) []LenPlan {
	if s := os.Getenv("VERIF_C20_PLAN"); s != "" {
		var out []LenPlan
		for _, part := range strings.Split(s, ",") {
			var p LenPlan
			if _, err := fmt.Sscanf(part, "%d:%d:%d:%d", &p.Len, &p.NoFault, &p.Fault, &p.K); err != nil {
				common.Broken("bad VERIF_C20_PLAN element %q", part)
			}
			out = append(out, p)
		}
		return out
	}
	return DefaultPlan(tier, true)
}

// DefaultPlan: lists of length <= 2 over the whole alphabet are explored over EVERY schedule
// (no bound) without and with every single fault. Executions with 3 type groups already
// have 400-840 schedules with zero preemptions (every goroutine exit / WaitGroup block is a
// free choice among the others; measured 7.7M executions for the fault-free lists of length
// 3 over the core alphabet at pb=0), so longer lists get lower bounds. Length 3 on the
// canonical schedule: fault-free over the whole alphabet (wrong-typed keys at first / middle
// / last position of a type group), every single fault over the core alphabet (quick) or
// the whole alphabet (thorough). Thorough adds, for the full configuration, every
// zero-preemption schedule of every fault-free core list of length 3, and core lists of
// length 4 on the canonical schedule.
func DefaultPlan(tier string, full bool) []LenPlan {
	k := len(Alphabet)
	short := []LenPlan{{0, Unbounded, NotRun, k}, {1, Unbounded, Unbounded, k}, {2, Unbounded, Unbounded, k}}
	if tier == "thorough" {
		if !full {
			return append(short, LenPlan{3, First, First, k}, LenPlan{4, First, NotRun, CoreK})
		}
		return append(short, LenPlan{3, 0, NotRun, CoreK}, LenPlan{3, First, First, k}, LenPlan{4, First, NotRun, CoreK})
	}
	return append(short, LenPlan{3, First, NotRun, k}, LenPlan{3, NotRun, First, CoreK})
}

// Encode renders a plan in the VERIF_C20_PLAN syntax.
func Encode(plan []LenPlan) string {
	var parts []string
	for _, p := range plan {
		parts = append(parts, fmt.Sprintf("%d:%d:%d:%d", p.Len, p.NoFault, p.Fault, p.K))
	}
	return strings.Join(parts, ",")
}

// Job is one scenario: a case and its preemption bound.
type Job struct {
	Case  Case
	Bound int
}

// Jobs enumerates every scenario of a plan, shortest lists first, fault-free case before
// the single-fault cases of a list.
func Jobs(mode string, plan []LenPlan) []Job {
	var out []Job
	for _, p := range plan {
		for _, l := range Lists(p.Len, p.K) {
			c := Case{List: l}
			if p.NoFault != NotRun {
				out = append(out, Job{c, p.NoFault})
			}
			if p.Fault == NotRun {
				continue
			}
			for _, f := range FaultPositions(mode, c.Reps()) {
				f := f
				out = append(out, Job{Case{List: l, Fault: &f}, p.Fault})
			}
		}
	}
	return append(out, ComboJobs(mode)...)
}

// ComboJobs (both tiers): every key combination of the three-key entities and every
// required-field combination of the three-requires entities alone (fault-free
// and with every single fault) and paired, in both orders, with each companion (fault-free);
// every schedule, no bound (pairs of the required-field combinations: canonical schedule).
func ComboJobs(mode string) []Job {
	var out []Job
	for _, l := range append(append([]Letter(nil), KeyCombos...), ReqCombos...) {
		c := Case{List: []string{l.Name}}
		out = append(out, Job{c, Unbounded})
		for _, f := range FaultPositions(mode, c.Reps()) {
			f := f
			out = append(out, Job{Case{List: c.List, Fault: &f}, Unbounded})
		}
		typ := l.Name[:strings.IndexByte(l.Name, ':')]
		pb := Unbounded
		if entities[typ].Req3 {
			// 1,728 pairs with 100-400 schedules each: canonical schedule only, except the
			// well-formed combination (which required field goes where is decided by
			// sequential code; the interleaving of two entity goroutines is covered by the
			// main alphabet and by this pair)
			pb = First
			if strings.HasSuffix(l.Name, ":WWW") {
				pb = Unbounded
			}
		}
		for _, o := range Companions[typ] {
			out = append(out, Job{Case{List: []string{l.Name, o.Name}}, pb}, Job{Case{List: []string{o.Name, l.Name}}, pb})
		}
	}
	return out
}

// ShardResult is what one worker process reports.
type ShardResult struct {
	Scenarios     int              `json:"scenarios"`
	Completed     int              `json:"completed"`
	Execs         int64            `json:"execs"`
	Transitions   int64            `json:"transitions"`
	Switched      int64            `json:"switched"`
	Kinds         map[string]int   `json:"kinds"`
	MaxCost       int              `json:"max_cost"`
	MaxSteps      int              `json:"max_steps"`
	Exhaustive    bool             `json:"exhaustive"`
	MultiOutcome  []string         `json:"multi_outcome,omitempty"` // scenarios whose response depended on the schedule
	Found         []explore.Found  `json:"found,omitempty"`
	SigCounts     map[string]int   `json:"sig_counts"`
	PerLen        map[int][3]int64 `json:"per_len"` // len -> scenarios, execs, completed
	FaultCases    int              `json:"fault_cases"`
	NontrivialSch int              `json:"scenarios_with_more_than_one_schedule"`
	Samples       []any            `json:"samples,omitempty"`
	Broken        string           `json:"broken,omitempty"`
}

func argValue(name string) string {
	for i, a := range os.Args {
		if a == name && i+1 < len(os.Args) {
			return os.Args[i+1]
		}
	}
	return ""
}

func scenarioOf(s *Shared, j Job) *explore.Scenario {
	b := j.Bound
	if b == Unbounded || b == First {
		b = -1
	}
	return &explore.Scenario{Name: j.Case.Name(), Bound: &b, Meta: j.Case, New: func() explore.Instance { return s.NewInst(j.Case) }}
}

const maxSteps = 20000

// HarnessMain is the entry point of the harness binary built inside the scratch module.
//
//	harness --tier T --shard i/n --deadline <unix>     explore this shard's scenarios, print a ShardResult
//	harness --replay <file>                            re-run the schedule stored in a replay file
//	harness --one '<case json>' [--pb n]               explore one case and print its statistics
func HarnessMain(w Wiring) {
	mode := os.Getenv("VERIF_FED_MODE")
	if mode == "" {
		mode = "default"
	}
	s := NewShared(w, mode)
	tier := common.TierFromArgs()
	if rp := argValue("--replay"); rp != "" {
		os.Exit(replay(s, rp))
	}
	if one := argValue("--one"); one != "" {
		var c Case
		if err := json.Unmarshal([]byte(one), &c); err != nil {
			common.Broken("--one: %v", err)
		}
		pb, _ := strconv.Atoi(argValue("--pb"))
		st := explore.ExploreScenario(scenarioOf(s, Job{c, pb}), explore.Config{Bound: pb, MaxSteps: maxSteps})
		json.NewEncoder(os.Stdout).Encode(st)
		return
	}
	if argValue("--count") != "" { // scenarios per list length of this tier's plan
		n := map[int]int{}
		for _, j := range Jobs(mode, PlanFor(tier)) {
			n[len(j.Case.List)]++
		}
		fmt.Println(n)
		return
	}
	var si, sn int
	if _, err := fmt.Sscanf(argValue("--shard"), "%d/%d", &si, &sn); err != nil || sn < 1 {
		common.Broken("harness: need --shard i/n")
	}
	var deadline time.Time
	if dl, _ := strconv.ParseInt(argValue("--deadline"), 10, 64); dl > 0 {
		deadline = time.Unix(dl, 0)
	}
	jobs := Jobs(mode, PlanFor(tier))
	res := ShardResult{Kinds: map[string]int{}, SigCounts: map[string]int{}, PerLen: map[int][3]int64{}, Exhaustive: true}
	sigSeen := map[string]bool{}
	for idx, j := range jobs {
		if idx%sn != si {
			continue
		}
		res.Scenarios++
		pl := res.PerLen[len(j.Case.List)]
		pl[0]++
		if !deadline.IsZero() && time.Now().After(deadline) {
			res.Exhaustive = false
			res.PerLen[len(j.Case.List)] = pl
			continue
		}
		cfg := explore.Config{Bound: j.Bound, MaxSteps: maxSteps, Deadline: deadline}
		if j.Bound == First {
			cfg.MaxExecs = 1
		}
		st := explore.ExploreScenario(scenarioOf(s, j), cfg)
		if j.Bound == First && st.Execs == 1 && st.Kinds["horizon"] == 0 {
			st.Exhaustive = true // the stated space of this scenario is its canonical schedule
		}
		if st.Broken != "" {
			res.Broken = st.Broken
			break
		}
		res.Execs += st.Execs
		res.Transitions += st.Transitions
		res.Switched += st.Switched
		pl[1] += st.Execs
		if st.Exhaustive {
			res.Completed++
			pl[2]++
		} else {
			res.Exhaustive = false
		}
		res.PerLen[len(j.Case.List)] = pl
		for k, v := range st.Kinds {
			res.Kinds[k] += v
		}
		res.MaxCost = max(res.MaxCost, st.MaxCost)
		res.MaxSteps = max(res.MaxSteps, st.MaxSteps)
		if j.Case.Fault != nil {
			res.FaultCases++
		}
		if st.Execs > 1 {
			res.NontrivialSch++
		}
		if st.NOutcomes > 1 && len(res.MultiOutcome) < 20 {
			res.MultiOutcome = append(res.MultiOutcome, st.Scenario)
		}
		for _, f := range st.Found {
			res.SigCounts[f.Sig]++
			if !sigSeen[f.Sig] {
				sigSeen[f.Sig] = true
				if len(f.Trace) > 60 {
					f.Trace = f.Trace[:60]
				}
				res.Found = append(res.Found, f)
			}
		}
		if len(res.Samples) < 2 && len(j.Case.List) >= 2 && j.Case.Fault != nil {
			tr := st.SampleTrace
			if len(tr) > 25 {
				tr = tr[:25]
			}
			var reps []string
			for _, n := range j.Case.List {
				l, _ := letter(n)
				reps = append(reps, l.JSON)
			}
			res.Samples = append(res.Samples, map[string]any{"case": j.Case, "representations": reps, "reference": Reference(mode, j.Case.Reps(), j.Case.Fault).Want,
				"preemption_bound": boundName(j.Bound), "schedules_explored": st.Execs, "canonical_schedule_prefix": tr})
		}
	}
	json.NewEncoder(os.Stdout).Encode(res)
	if res.Broken != "" {
		os.Exit(2)
	}
}

// replay re-runs the case + schedule of a replay file and prints what the oracle sees.
func replay(s *Shared, path string) int {
	b, err := os.ReadFile(path)
	if err != nil {
		common.Broken("replay: %v", err)
	}
	var doc struct {
		Replay struct {
			Found explore.Found `json:"found"`
			Case  Case          `json:"case"`
		} `json:"replay"`
	}
	if err := json.Unmarshal(b, &doc); err != nil {
		common.Broken("replay: %v", err)
	}
	c := doc.Replay.Case
	sc := scenarioOf(s, Job{c, 0})
	fmt.Println("case:", c.Name())
	for i, r := range c.List {
		l, _ := letter(r)
		fmt.Printf("  representation %d: %s\n", i, l.JSON)
	}
	ref := Reference(s.Mode, c.Reps(), c.Fault)
	for i, w := range ref.Want {
		fmt.Printf("  reference %d: %s %s\n", i, w.Status, w.JSON)
	}
	_ = sc
	inst := s.NewInst(c)
	sched, out := vrt.Run(doc.Replay.Found.Choices, maxSteps, inst.Body)
	x := &explore.Exec{Sched: sched, Out: out, Cost: out.Cost}
	for _, st := range sched.Trace {
		fmt.Printf("   %s %s [%d/%d]\n", st.Thread, st.Desc, st.Chosen, st.NChoices)
	}
	fmt.Println("outcome:", x.Out.Kind, x.Out.Blocked)
	if x.Out.Crash != "" {
		fmt.Println(x.Out.Crash)
	}
	fmt.Println("obs:", inst.Obs())
	sig, msg := inst.Check(x)
	fmt.Printf("oracle: sig=%q %s\n", sig, msg)
	if sig != "" {
		return 1
	}
	return 0
}

package c20

import (
	"context"
	"errors"
	"fmt"
	"sort"
	"strconv"
	"strings"
	"sync"

	"verif/vrt"
)

// Env is the per-execution state of the logging stub resolvers.
type Env struct {
	Fault  *Fault
	mu     sync.Mutex
	Calls  []string
	Panics int
}

func (e *Env) log(s string) {
	e.mu.Lock()
	e.Calls = append(e.Calls, s)
	e.mu.Unlock()
}

func (e *Env) SortedCalls() []string {
	e.mu.Lock()
	defer e.mu.Unlock()
	c := append([]string(nil), e.Calls...)
	sort.Strings(c)
	return c
}

// FaultToken marks injected errors / panics in error messages.
const FaultToken = "FAULT:"

// Call is the common prologue of every stub call: (1) log the call and its arguments,
// (2) a scheduling point ("this resolver takes time"), (3) like any real resolver that
// hands its context to a database / HTTP client, it gives up with ctx.Err() when its
// context has been cancelled by then, (4) the fault plan. It returns, per key, whether the
// resolver is to return nil for it, or an error; or panics.
//
// The harness never cancels the request context, so a cancelled context here is the doing
// of the code under test. One scheduling point followed by the check observes everything a
// resolver that selects on ctx.Done() while it works could observe: the check sees the
// cancellation iff the cancel is scheduled before the resolver resumes from its (last)
// point, and the explorer enumerates both orders.
func (e *Env) Call(ctx context.Context, resolver string, keys []string) (nils []bool, err error) {
	e.log(resolver + "(" + strings.Join(keys, " ") + ")")
	vrt.Yield("resolver " + resolver)
	nils = make([]bool, len(keys))
	if err := ctx.Err(); err != nil {
		return nils, err
	}
	f := e.Fault
	if f == nil || f.Resolver != resolver {
		return nils, nil
	}
	for i, k := range keys {
		if k != f.Key {
			continue
		}
		switch f.Kind {
		case "error":
			return nils, errors.New(FaultToken + f.String())
		case "panic":
			panic(FaultToken + f.String())
		case "nil":
			nils[i] = true
		}
	}
	return nils, nil
}

// Call1 is Call for single-entity resolvers.
func (e *Env) Call1(ctx context.Context, resolver string, key string) (isNil bool, err error) {
	nils, err := e.Call(ctx, resolver, []string{key})
	return nils[0], err
}

// Weight reads the required field out of a representation.
func Weight(rep map[string]any) (int, error) {
	s, ok := leaf("Int", rep["weight"])
	if !ok {
		return 0, fmt.Errorf("required field weight missing from representation")
	}
	n, _ := strconv.Atoi(s)
	return n, nil
}

func idOf(rep map[string]any) string {
	s, _ := leaf("ID", rep["id"])
	return s
}

// Populate is the body of the user-written Populate<T>Requires functions (explicit_requires):
// log, scheduling point, fault plan, then copy the required field out of the representation
// it was handed. set dereferences the entity, exactly as user code would.
func (e *Env) Populate(ctx context.Context, name string, rep map[string]any, set func(w int)) error {
	if _, err := e.Call1(ctx, name, idOf(rep)); err != nil {
		return err
	}
	w, err := Weight(rep)
	if err != nil {
		return err
	}
	set(w)
	return nil
}

// Cost is the body of the computed `cost` field resolvers (computed_requires): the value is
// a function of the required field of the representation it was handed.
func (e *Env) Cost(ctx context.Context, name, id string, requires map[string]any) (int, error) {
	if _, err := e.Call1(ctx, name, id); err != nil {
		return 0, err
	}
	w, err := Weight(requires)
	if err != nil {
		return 0, err
	}
	return 1000 + w, nil
}

// Populate3 is Populate for the three required fields of Req3 / MultiReq3.
func (e *Env) Populate3(ctx context.Context, name string, rep map[string]any, set func(qty int, label string, ratio float64)) error {
	if _, err := e.Call1(ctx, name, idOf(rep)); err != nil {
		return err
	}
	q, l, r, err := Requires3(rep)
	if err != nil {
		return err
	}
	set(q, l, r)
	return nil
}

// TotalOf is the body of the computed `total` field resolvers (computed_requires).
func (e *Env) TotalOf(ctx context.Context, name, id string, requires map[string]any) (string, error) {
	if _, err := e.Call1(ctx, name, id); err != nil {
		return "", err
	}
	q, l, r, err := Requires3(requires)
	if err != nil {
		return "", err
	}
	return Total3(q, l, r), nil
}

// Str returns a pointer to s (optional String fields of the generated models).
func Str(s string) *string { return &s }

package c20

import (
	"bytes"
	"context"
	"encoding/json"
	"fmt"
	"reflect"
	"sort"
	"strings"

	"github.com/99designs/gqlgen/graphql"
	"github.com/99designs/gqlgen/graphql/executor"

	"verif/explore"
)

// Wiring is supplied by the generated-package-specific harness main.
type Wiring struct {
	// NewES builds the generated executable schema whose stub resolvers work against cur().
	NewES func(cur func() *Env) graphql.ExecutableSchema
}

type Shared struct {
	Mode string // "default" | "explicit" | "computed"
	es   graphql.ExecutableSchema
	cur  *Env
}

func NewShared(w Wiring, mode string) *Shared {
	s := &Shared{Mode: mode}
	s.es = w.NewES(func() *Env { return s.cur })
	return s
}

// Inst is one execution of one case: one _entities request run to completion.
type Inst struct {
	S    *Shared
	C    Case
	Env  *Env
	Gate []string // errors before execution (must be empty: every list is a valid [_Any!]!)
	Data string
	Errs []string // "path: message"
	Done bool
}

func (s *Shared) NewInst(c Case) *Inst { return &Inst{S: s, C: c} }

func (in *Inst) Body() {
	s := in.S
	in.Env = &Env{Fault: in.C.Fault}
	s.cur = in.Env
	ctx := graphql.StartOperationTrace(context.Background())
	ex := executor.New(s.es)
	ex.SetRecoverFunc(func(ctx context.Context, err any) error {
		in.Env.mu.Lock()
		in.Env.Panics++
		in.Env.mu.Unlock()
		return fmt.Errorf("PANIC:%v", err)
	})
	reps := make([]any, 0, len(in.C.List))
	for _, r := range in.C.Reps() { // fresh maps for every execution
		reps = append(reps, r)
	}
	oc, errs := ex.CreateOperationContext(ctx, &graphql.RawParams{Query: Query(s.Mode), Variables: map[string]any{"r": reps}})
	if len(errs) > 0 {
		for _, e := range errs {
			in.Gate = append(in.Gate, e.Message)
		}
		in.Done = true
		return
	}
	rh, rctx := ex.DispatchOperation(ctx, oc)
	resp := rh(rctx)
	if resp != nil {
		in.Data = string(resp.Data)
		for _, e := range resp.Errors {
			in.Errs = append(in.Errs, e.Path.String()+": "+e.Message)
		}
		sort.Strings(in.Errs)
		if extra := rh(rctx); extra != nil {
			in.Errs = append(in.Errs, "EXTRA RESPONSE: "+string(extra.Data))
		}
	}
	in.Done = true
}

func (in *Inst) Obs() string {
	var calls []string
	panics := 0
	if in.Env != nil {
		calls = in.Env.SortedCalls()
		panics = in.Env.Panics
	}
	b, _ := json.Marshal(struct {
		D string
		E []string
		G []string
		C []string
		P int
	}{in.Data, in.Errs, in.Gate, calls, panics})
	return string(b)
}

func firstLine(s string) string {
	if i := strings.IndexByte(s, '\n'); i >= 0 {
		s = s[:i]
	}
	if len(s) > 100 {
		s = s[:100]
	}
	return s
}

func sameJSON(a, b string) bool {
	if a == b {
		return true
	}
	dec := func(s string) (any, error) {
		d := json.NewDecoder(bytes.NewReader([]byte(s)))
		d.UseNumber()
		var v any
		err := d.Decode(&v)
		return v, err
	}
	x, e1 := dec(a)
	y, e2 := dec(b)
	return e1 == nil && e2 == nil && reflect.DeepEqual(x, y)
}

// disagreement is one way the response departs from the reference.
type disagreement struct {
	sig, msg string
}

// effective applies the two alternatives the reference allows for representations that are
// not well-formed, given the response:
//   - a key component of a type gqlgen's lenient scalars coerce (bool / number for ID /
//     String): the entity of the coerced key is accepted instead of null + error;
//   - a batch (multi-resolver type, same key) that contains a representation whose key
//     VALUE cannot be unmarshalled (object / list for ID / String ...): gqlgen rejects that
//     batch call as a whole before calling the resolver; "every representation of that
//     batch is null, with an error" is accepted. Anything else - in particular an entity at
//     the index of another representation - is not.
//
// rejected reports the resolvers of batches accepted as rejected.
func effective(ref *Ref, elems []json.RawMessage) (eff []Want, rejected map[string]bool) {
	eff = append([]Want(nil), ref.Want...)
	rejected = map[string]bool{}
	for i := range eff {
		w := &eff[i]
		if w.Status == "fail" && w.Lenient != "" && string(elems[i]) != "null" && sameJSON(string(elems[i]), w.Lenient) {
			w.Status, w.JSON = "value", w.Lenient
		}
	}
	for i, w := range ref.Want {
		ent, ok := entities[w.Type]
		if !ok || !ent.Multi || !w.IllTyped || w.Lenient != "" || rejected[w.Type+"/"+w.Chosen] {
			continue
		}
		var batch []int
		allNull := true
		for j, o := range ref.Want {
			if o.Type == w.Type && o.Chosen == w.Chosen {
				batch = append(batch, j)
				if string(elems[j]) != "null" {
					allNull = false
				}
			}
		}
		_ = i
		if allNull {
			rejected[w.Type+"/"+w.Chosen] = true
			for _, j := range batch {
				eff[j].Status, eff[j].JSON = "fail", ""
			}
		}
	}
	return eff, rejected
}

// compare evaluates the oracle ignoring the indices in skip. nil = agrees.
func (in *Inst) compare(ref *Ref, elems []json.RawMessage, skip map[int]bool) *disagreement {
	eff, rejected := effective(ref, elems)
	for i, w := range eff {
		if skip[i] {
			continue
		}
		got := string(elems[i])
		switch w.Status {
		case "value":
			if got == "null" {
				return &disagreement{"element-null-but-own-resolver-succeeds:" + w.Type,
					fmt.Sprintf("element %d is null although representation %s resolves (by %s(%s)) to %s", i, in.C.List[i], w.Sel, w.Key, w.JSON)}
			}
			if !sameJSON(got, w.JSON) {
				return &disagreement{"element-is-not-the-entity-of-its-own-representation:" + w.Type,
					fmt.Sprintf("element %d is %s; representation %s resolves (by %s(%s)) to %s", i, got, in.C.List[i], w.Sel, w.Key, w.JSON)}
			}
		default:
			if got != "null" {
				why := "is unresolvable / its resolver failed"
				if w.Status == "nil" {
					why = "was answered nil by its resolver"
				}
				return &disagreement{"element-not-null-although-own-representation-failed:" + w.Status,
					fmt.Sprintf("element %d is %s although representation %s %s", i, got, in.C.List[i], why)}
			}
		}
	}
	lo, hi := ErrBounds(eff, skip)
	if len(skip) > 0 { // errors of the ignored indices cannot be told apart
		hi += len(skip)
	}
	n := len(in.Errs)
	if n < lo {
		return &disagreement{"failed-element-without-error", fmt.Sprintf("%d errors for at least %d failed representations / batches: %v", n, lo, in.Errs)}
	}
	if n > hi {
		return &disagreement{"errors-without-failed-element", fmt.Sprintf("%d errors but at most %d representations failed: %v", n, hi, in.Errs)}
	}
	faultCallRejected := in.C.Fault != nil && func() bool {
		for k := range rejected {
			if strings.HasSuffix(k, "/"+in.C.Fault.Resolver) {
				return true
			}
		}
		return false
	}()
	if ref.FaultReached && len(skip) == 0 && !faultCallRejected {
		found := false
		for _, e := range in.Errs {
			if strings.Contains(e, FaultToken) {
				found = true
			}
		}
		if !found {
			return &disagreement{"injected-fault-not-reported", fmt.Sprintf("the injected %s is in no error: %v", in.C.Fault, in.Errs)}
		}
	}
	return nil
}

// knownClasses: input classes of genuine defects found on the unchanged tree. Each returns
// the indices whose elements the defect can disturb (nil = class does not apply to the
// input). A disagreement is attributed to a class only if the response agrees with the
// reference on every OTHER index, so any other violation still fails the check.
type knownClass struct {
	sig  string
	skip map[int]bool
}

func knownClasses(c Case, ref *Ref) []knownClass {
	var out []knownClass
	groups := map[string][]int{}
	for i, w := range ref.Want {
		if ent, ok := entities[w.Type]; ok && ent.Multi {
			groups[w.Type] = append(groups[w.Type], i)
		}
	}
	var types []string
	for t := range groups {
		types = append(types, t)
	}
	sort.Strings(types)
	for _, t := range types {
		g := groups[t]
		if len(g) < 2 {
			continue
		}
		sels := map[string]bool{}
		unres := false
		for _, i := range g {
			w := ref.Want[i]
			switch {
			case w.Sel != "":
				sels[w.Sel] = true
			case w.Lenient != "": // gqlgen coerces this key and resolves it
				sels["lenient:"+w.Chosen] = true
			default:
				sels[""] = true
				unres = true
			}
		}
		skip := map[int]bool{}
		for _, i := range g {
			skip[i] = true
		}
		reqBad := false
		for _, i := range g {
			if ref.Want[i].ReqIllTyped {
				reqBad = true
			}
		}
		if reqBad {
			// resolveManyEntities returns from its result loop at the first required field its
			// scalar rejects: the representations after it in the batch are not answered
			out = append(out, knownClass{"multi-resolver-ill-typed-required-field-aborts-rest-of-batch", skip})
		}
		if len(sels) > 1 {
			// D14: resolveManyEntities takes the key / resolver of the whole type group from reps[0]
			if unres {
				out = append(out, knownClass{"multi-resolver-batch-key-taken-from-first-representation:unresolvable-member-in-batch", skip})
			} else {
				out = append(out, knownClass{"multi-resolver-batch-key-taken-from-first-representation:mixed-keys-in-batch", skip})
			}
		}
	}
	return out
}

// Check is the C20 oracle.
func (in *Inst) Check(x *explore.Exec) (string, string) {
	switch x.Out.Kind {
	case "crash":
		return "crash:" + firstLine(x.Out.CrashVal), x.Out.Crash
	case "blocked":
		return "deadlock", fmt.Sprintf("blocked threads: %v", x.Out.Blocked)
	case "horizon":
		return "horizon", "execution did not finish within the step horizon"
	}
	if len(in.Gate) > 0 {
		return "request-rejected-before-execution", fmt.Sprintf("a list of JSON objects is a valid [_Any!]! but the request was rejected: %v", in.Gate)
	}
	var data struct {
		Entities []json.RawMessage `json:"_entities"`
	}
	if err := json.Unmarshal([]byte(in.Data), &data); err != nil || data.Entities == nil || len(data.Entities) != len(in.C.List) {
		return "entities-list-shape", fmt.Sprintf("data._entities is not a list of %d elements: %s (errors %v)", len(in.C.List), in.Data, in.Errs)
	}
	ref := Reference(in.S.Mode, in.C.Reps(), in.C.Fault)
	d := in.compare(ref, data.Entities, nil)
	if d == nil {
		return "", ""
	}
	classes := knownClasses(in.C, ref)
	for _, k := range classes {
		if in.compare(ref, data.Entities, k.skip) == nil {
			return k.sig, d.msg + "\n  response: " + in.Data + "\n  errors: " + strings.Join(in.Errs, " | ")
		}
	}
	// several classes at once (e.g. two multi-resolver type groups in one list): the response
	// must agree on every index outside the union of the classes that apply
	if len(classes) > 1 {
		union := map[int]bool{}
		var sigs []string
		for _, k := range classes {
			for i := range k.skip {
				union[i] = true
			}
			sigs = append(sigs, k.sig)
		}
		if in.compare(ref, data.Entities, union) == nil {
			return classes[0].sig, d.msg + "\n  (classes present together: " + strings.Join(sigs, ", ") + ")\n  response: " + in.Data + "\n  errors: " + strings.Join(in.Errs, " | ")
		}
	}
	return d.sig, d.msg + "\n  response: " + in.Data + "\n  errors: " + strings.Join(in.Errs, " | ")
}

package c02lib

import (
	"bytes"
	"context"
	"encoding/json"
	"fmt"
	"net/http"
	"net/http/httptest"
	"net/url"
	"os"
	"reflect"
	"runtime"
	"sort"
	"strconv"
	"strings"
	"sync"
	"time"

	"github.com/vektah/gqlparser/v2/ast"
	"github.com/vektah/gqlparser/v2/parser"

	"github.com/99designs/gqlgen/graphql"
	"github.com/99designs/gqlgen/graphql/handler"
	"github.com/99designs/gqlgen/graphql/handler/transport"
)

// ---------------------------------------------------------------------------------------
// observation side: reflective resolvers and the @ad directive

type recKey struct{}

type call struct {
	Key  string
	Name string
	Args []reflect.Value
	// Method: reported by a bound model method (probe/boxmodel); ArgNames are the method's
	// own parameter names in ITS parameter order (values are compared by name)
	Method   bool
	ArgNames []string
}

type dirCall struct {
	Path  []string
	Value reflect.Value
	Err   error
}

type recorder struct {
	mu    sync.Mutex
	calls []call
	dirs  []dirCall
}

// Fill sets every func field of stub.QueryResolver to a resolver that records the
// arguments it receives and returns "ok".
func Fill(stub any) {
	qr := reflect.ValueOf(stub).Elem().FieldByName("QueryResolver")
	for i := 0; i < qr.NumField(); i++ {
		f := qr.Field(i)
		ft := f.Type()
		f.Set(reflect.MakeFunc(ft, func(args []reflect.Value) []reflect.Value {
			ctx := args[0].Interface().(context.Context)
			rec, _ := ctx.Value(recKey{}).(*recorder)
			if ft.Out(0).Kind() == reflect.Ptr && ft.Out(0).Elem().Kind() == reflect.Struct {
				// an object whose fields are bound to model methods (Query.box): hand it a
				// logger; the methods report what they receive
				obj := reflect.New(ft.Out(0).Elem())
				if lf := obj.Elem().FieldByName("Log"); lf.IsValid() && rec != nil {
					lf.Set(reflect.ValueOf(func(field string, names []string, vals ...any) {
						c := call{Key: field, Name: field, Method: true, ArgNames: names}
						for _, v := range vals {
							c.Args = append(c.Args, reflect.ValueOf(v))
						}
						rec.mu.Lock()
						rec.calls = append(rec.calls, c)
						rec.mu.Unlock()
					}))
				}
				return []reflect.Value{obj, reflect.Zero(ft.Out(1))}
			}
			if rec != nil {
				fc := graphql.GetFieldContext(ctx)
				rec.mu.Lock()
				rec.calls = append(rec.calls, call{Key: fc.Field.Alias, Name: fc.Field.Name, Args: args[1:]})
				rec.mu.Unlock()
			}
			out := reflect.New(ft.Out(0)).Elem()
			s := "ok"
			switch {
			case ft.Out(0).Kind() == reflect.Ptr && ft.Out(0).Elem().Kind() == reflect.String:
				out.Set(reflect.ValueOf(&s))
			case ft.Out(0).Kind() == reflect.String:
				out.SetString(s)
			}
			return []reflect.Value{out, reflect.Zero(ft.Out(1))}
		}))
	}
}

// AdDirective is the implementation of the probe's `@ad` directive: it records the value
// that the rest of the chain produces and passes it on unchanged.
func AdDirective(ctx context.Context, obj any, next graphql.Resolver) (any, error) {
	v, err := next(ctx)
	if rec, _ := ctx.Value(recKey{}).(*recorder); rec != nil {
		var path []string
		for _, e := range graphql.GetPath(ctx) {
			switch e := e.(type) {
			case ast.PathName:
				path = append(path, string(e))
			case ast.PathIndex:
				path = append(path, strconv.Itoa(int(e)))
			}
		}
		rec.mu.Lock()
		rec.dirs = append(rec.dirs, dirCall{Path: path, Value: reflect.ValueOf(v), Err: err})
		rec.mu.Unlock()
	}
	return v, err
}

func isOmittable(t reflect.Type) bool {
	return t.Kind() == reflect.Struct && strings.HasPrefix(t.Name(), "Omittable[") && strings.HasSuffix(t.PkgPath(), "gqlgen/graphql")
}

func fieldName(f reflect.StructField) string {
	if tag, ok := f.Tag.Lookup("json"); ok {
		if n := strings.Split(tag, ",")[0]; n != "" && n != "-" {
			return n
		}
	}
	return f.Name
}

// RenderGo normalises a Go value: pointers dereferenced, nil -> null, Omittable ->
// unset / set(value), maps with their keys (presence preserved), structs field by field.
func RenderGo(v reflect.Value) string {
	if !v.IsValid() {
		return "null"
	}
	switch v.Kind() {
	case reflect.Ptr, reflect.Interface:
		if v.Kind() == reflect.Ptr && v.Type().Elem().Kind() == reflect.Ptr {
			// pointer to pointer: nil = omitted, pointer to nil = explicit null
			if v.IsNil() {
				return "unset"
			}
			return "set(" + RenderGo(v.Elem()) + ")"
		}
		if v.IsNil() {
			return "null"
		}
		return RenderGo(v.Elem())
	case reflect.Bool:
		return strconv.FormatBool(v.Bool())
	case reflect.Int, reflect.Int8, reflect.Int16, reflect.Int32, reflect.Int64:
		return strconv.FormatInt(v.Int(), 10)
	case reflect.Uint, reflect.Uint8, reflect.Uint16, reflect.Uint32, reflect.Uint64:
		return strconv.FormatUint(v.Uint(), 10)
	case reflect.Float32, reflect.Float64:
		return "f:" + strconv.FormatFloat(v.Float(), 'g', -1, 64)
	case reflect.String:
		return strconv.Quote(v.String())
	case reflect.Slice:
		if v.IsNil() {
			return "null"
		}
		parts := make([]string, v.Len())
		for i := range parts {
			parts[i] = RenderGo(v.Index(i))
		}
		return "[" + strings.Join(parts, ",") + "]"
	case reflect.Map:
		if v.IsNil() {
			return "null"
		}
		keys := v.MapKeys()
		sort.Slice(keys, func(i, j int) bool { return keys[i].String() < keys[j].String() })
		parts := make([]string, len(keys))
		for i, k := range keys {
			parts[i] = k.String() + ":" + RenderGo(v.MapIndex(k))
		}
		return "map{" + strings.Join(parts, ",") + "}"
	case reflect.Struct:
		if isOmittable(v.Type()) {
			if !v.MethodByName("IsSet").Call(nil)[0].Bool() {
				return "unset"
			}
			return "set(" + RenderGo(v.MethodByName("Value").Call(nil)[0]) + ")"
		}
		parts := make([]string, v.NumField())
		for i := range parts {
			parts[i] = fieldName(v.Type().Field(i)) + ":" + RenderGo(v.Field(i))
		}
		return "{" + strings.Join(parts, ",") + "}"
	}
	return "<unrenderable " + v.Type().String() + ">"
}

// RenderExpected renders the spec value sv (nil = not provided) in the shape of Go type t.
// The Go type decides only representation (null in a non-nilable type is the zero value,
// Omittable and map-backed inputs show presence); dyn, when valid, gives the dynamic type
// behind an `any` (the values of a map-backed input).
func RenderExpected(sv *SV, t reflect.Type, dyn reflect.Value) string {
	isNull := sv == nil || sv.K == "null"
	switch t.Kind() {
	case reflect.Ptr:
		if t.Elem().Kind() == reflect.Ptr {
			// pointer to pointer: shows omitted / explicit null / value like Omittable
			if sv == nil {
				return "unset"
			}
			d := reflect.Value{}
			if dyn.IsValid() && dyn.Kind() == reflect.Ptr && !dyn.IsNil() {
				d = dyn.Elem()
			}
			return "set(" + RenderExpected(sv, t.Elem(), d) + ")"
		}
		if isNull {
			return "null"
		}
		if dyn.IsValid() && dyn.Kind() == reflect.Ptr && !dyn.IsNil() {
			return RenderExpected(sv, t.Elem(), dyn.Elem())
		}
		return RenderExpected(sv, t.Elem(), reflect.Value{})
	case reflect.Interface:
		if dyn.IsValid() && dyn.Kind() == reflect.Interface && !dyn.IsNil() {
			return RenderExpected(sv, dyn.Elem().Type(), dyn.Elem())
		}
		if isNull {
			return "null"
		}
		return "<no Go value for " + sv.String() + ">"
	case reflect.Slice:
		if isNull {
			return "null"
		}
		if sv.K != "list" {
			return "<" + sv.String() + " for " + t.String() + ">"
		}
		parts := make([]string, len(sv.L))
		for i := range sv.L {
			d := reflect.Value{}
			if dyn.IsValid() && dyn.Kind() == reflect.Slice && i < dyn.Len() {
				d = dyn.Index(i)
			}
			parts[i] = RenderExpected(&sv.L[i], t.Elem(), d)
		}
		return "[" + strings.Join(parts, ",") + "]"
	case reflect.Map:
		if isNull {
			return "null"
		}
		if sv.K != "object" {
			return "<" + sv.String() + " for " + t.String() + ">"
		}
		fs := append([]SField(nil), sv.O...)
		sort.Slice(fs, func(i, j int) bool { return fs[i].Name < fs[j].Name })
		parts := make([]string, len(fs))
		for i := range fs {
			d := reflect.Value{}
			if dyn.IsValid() && dyn.Kind() == reflect.Map {
				d = dyn.MapIndex(reflect.ValueOf(fs[i].Name))
			}
			if d.IsValid() {
				// MapIndex returns the element with its static type (interface): keep it
				parts[i] = fs[i].Name + ":" + renderViaDyn(&fs[i].V, d)
			} else {
				parts[i] = fs[i].Name + ":" + "<missing key; want " + fs[i].V.String() + ">"
			}
		}
		return "map{" + strings.Join(parts, ",") + "}"
	case reflect.Struct:
		if isOmittable(t) {
			if sv == nil {
				return "unset"
			}
			vt := reflect.Zero(t).MethodByName("Value").Type().Out(0)
			d := reflect.Value{}
			if dyn.IsValid() {
				d = dyn.MethodByName("Value").Call(nil)[0]
			}
			return "set(" + RenderExpected(sv, vt, d) + ")"
		}
		if isNull {
			return RenderGo(reflect.Zero(t))
		}
		if sv.K == "lit" {
			if t.Name() != "Lit" {
				return "<Lit for " + t.String() + ">"
			}
			return "{Canon:" + strconv.Quote(sv.S) + "}"
		}
		if sv.K != "object" {
			return "<" + sv.String() + " for " + t.String() + ">"
		}
		parts := make([]string, t.NumField())
		for i := range parts {
			name := fieldName(t.Field(i))
			var fp *SV
			if fv, has := sv.Field(name); has {
				fp = &fv
			}
			d := reflect.Value{}
			if dyn.IsValid() {
				d = dyn.Field(i)
			}
			parts[i] = name + ":" + RenderExpected(fp, t.Field(i).Type, d)
		}
		return "{" + strings.Join(parts, ",") + "}"
	case reflect.Bool:
		if isNull {
			return "false"
		}
		if sv.K == "bool" {
			return strconv.FormatBool(sv.B)
		}
	case reflect.Int, reflect.Int8, reflect.Int16, reflect.Int32, reflect.Int64,
		reflect.Uint, reflect.Uint8, reflect.Uint16, reflect.Uint32, reflect.Uint64:
		if isNull {
			return "0"
		}
		if sv.K == "int" {
			return sv.I.String()
		}
	case reflect.Float32, reflect.Float64:
		if isNull {
			return "f:0"
		}
		if sv.K == "float" {
			return "f:" + strconv.FormatFloat(sv.F, 'g', -1, 64)
		}
	case reflect.String:
		if isNull {
			return `""`
		}
		if sv.K == "string" {
			return strconv.Quote(sv.S)
		}
	}
	return "<" + sv.String() + " for " + t.String() + ">"
}

func renderViaDyn(sv *SV, d reflect.Value) string {
	if d.Kind() == reflect.Interface {
		if d.IsNil() {
			if sv == nil || sv.K == "null" {
				return "null"
			}
			return "<nil for " + sv.String() + ">"
		}
		d = d.Elem()
	}
	return RenderExpected(sv, d.Type(), d)
}

// ---------------------------------------------------------------------------------------
// running one request on the generated executor

type ErrInfo struct {
	Path []string `json:"path"`
	Msg  string   `json:"message"`
}

type Observed struct {
	Gate   []ErrInfo `json:"request_errors,omitempty"` // errors that prevented execution
	Errors []ErrInfo `json:"errors,omitempty"`         // errors of the executed response
	Data   string    `json:"data,omitempty"`
	Calls  []string  `json:"resolver_calls,omitempty"` // rendered
	Dirs   []string  `json:"directive_calls,omitempty"`
	rec    *recorder
}

type Harness struct {
	ES     graphql.ExecutableSchema
	Schema *ast.Schema
	Srv    *handler.Server
	Stub   any
	fnType map[string]reflect.Type // lower-cased GraphQL field name -> resolver func type
	IDKind string
}

func norm(s string) string { return strings.ToLower(strings.ReplaceAll(s, "_", "")) }

func NewHarness(es graphql.ExecutableSchema, stub any) *Harness {
	h := &Harness{ES: es, Schema: es.Schema(), Stub: stub, fnType: map[string]reflect.Type{}}
	h.Srv = handler.New(es)
	h.Srv.AddTransport(transport.GET{})
	h.Srv.AddTransport(transport.POST{})
	h.Srv.SetRecoverFunc(func(ctx context.Context, err any) error {
		return fmt.Errorf("PANIC: %v", err)
	})
	qr := reflect.ValueOf(stub).Elem().FieldByName("QueryResolver")
	for i := 0; i < qr.NumField(); i++ {
		h.fnType[norm(qr.Type().Field(i).Name)] = qr.Type().Field(i).Type
	}
	for _, fd := range h.Schema.Query.Fields {
		if strings.HasPrefix(fd.Name, "__") {
			continue
		}
		ft, ok := h.fnType[norm(fd.Name)]
		if !ok || ft.NumIn() != 1+len(fd.Arguments) {
			broken("stub has no resolver matching Query.%s", fd.Name)
		}
	}
	// the Go binding of ID
	h.IDKind = "string"
	if ft, ok := h.fnType["idreq"]; ok {
		switch ft.In(1).Kind() {
		case reflect.Int:
			h.IDKind = "int"
		case reflect.Uint:
			h.IDKind = "uint"
		}
	}
	return h
}

func broken(format string, a ...any) {
	fmt.Fprintf(os.Stderr, "BROKEN: "+format+"\n", a...)
	os.Exit(2)
}

func pathStrings(p ast.Path) []string {
	var out []string
	for _, e := range p {
		switch e := e.(type) {
		case ast.PathName:
			out = append(out, string(e))
		case ast.PathIndex:
			out = append(out, strconv.Itoa(int(e)))
		}
	}
	return out
}

// Run sends one request through gqlgen's own transports (handler.Server with
// transport.POST / transport.GET on an httptest recorder, no sockets): the body or query
// string is decoded by the transport itself (json.Decoder.UseNumber), so the `variables`
// carrier (key absent, null, {}, object) reaches the executor exactly as in production.
func (h *Harness) Run(c Case) (obs Observed) {
	var req *http.Request
	if c.Transport == "GET" {
		u := "/query?query=" + url.QueryEscape(c.Query)
		if c.Vars != "" {
			u += "&variables=" + url.QueryEscape(c.Vars)
		}
		req = httptest.NewRequest("GET", u, nil)
	} else {
		body := `{"query":` + strconv.Quote(c.Query)
		if c.Vars != "" {
			body += `,"variables":` + c.Vars
		}
		body += "}"
		req = httptest.NewRequest("POST", "/query", strings.NewReader(body))
		req.Header.Set("Content-Type", "application/json")
	}
	rec := &recorder{}
	obs = Observed{rec: rec}
	req = req.WithContext(context.WithValue(context.Background(), recKey{}, rec))
	w := httptest.NewRecorder()
	// (a panic that escapes the executor is caught by Server.ServeHTTP's recover and
	// presented through the recover function, which tags it PANIC)
	h.Srv.ServeHTTP(w, req)
	var resp struct {
		Data   json.RawMessage `json:"data"`
		Errors []struct {
			Message string `json:"message"`
			Path    []any  `json:"path"`
		} `json:"errors"`
	}
	dec := json.NewDecoder(bytes.NewReader(w.Body.Bytes()))
	dec.UseNumber()
	if err := dec.Decode(&resp); err != nil {
		broken("response of %s is not JSON: %v: %.300s", c, err, w.Body.String())
	}
	executed := len(resp.Data) > 0 && string(resp.Data) != "null"
	if executed {
		obs.Data = string(resp.Data)
	}
	for _, e := range resp.Errors {
		var path []string
		for _, pe := range e.Path {
			path = append(path, fmt.Sprint(pe))
		}
		if executed {
			obs.Errors = append(obs.Errors, ErrInfo{path, e.Message})
		} else {
			obs.Gate = append(obs.Gate, ErrInfo{path, e.Message})
		}
	}
	if !executed && len(obs.Gate) == 0 {
		broken("response of %s has neither data nor errors: %.300s", c, w.Body.String())
	}
	for _, cl := range rec.calls {
		parts := make([]string, len(cl.Args))
		for i, a := range cl.Args {
			parts[i] = RenderGo(a)
			if cl.Method && i < len(cl.ArgNames) {
				parts[i] = cl.ArgNames[i] + "=" + parts[i]
			}
		}
		obs.Calls = append(obs.Calls, cl.Key+"("+strings.Join(parts, "; ")+")")
	}
	for _, d := range rec.dirs {
		obs.Dirs = append(obs.Dirs, strings.Join(d.Path, ".")+"="+RenderGo(d.Value))
	}
	return obs
}

// ---------------------------------------------------------------------------------------
// oracle

// svAt walks an argument value along a path of field names / indexes; nil = not there.
func svAt(v *SV, path []string) *SV {
	for _, p := range path {
		if v == nil {
			return nil
		}
		switch v.K {
		case "object":
			fv, has := v.Field(p)
			if !has {
				return nil
			}
			v = &fv
		case "list":
			i, err := strconv.Atoi(p)
			if err != nil || i < 0 || i >= len(v.L) {
				return nil
			}
			v = &v.L[i]
		default:
			return nil
		}
	}
	return v
}

func pathsEqual(a, b []string) bool {
	if len(a) != len(b) {
		return false
	}
	for i := range a {
		if a[i] != b[i] {
			return false
		}
	}
	return true
}

// pathsAgree: one path is a prefix of the other, where the observed path may carry extra
// "0" index components (the element index of a single value that list coercion wrapped).
func pathsAgree(want, got []string) bool {
	i, j := 0, 0
	for i < len(want) && j < len(got) {
		switch {
		case want[i] == got[j]:
			i++
			j++
		case got[j] == "0":
			j++
		default:
			return false
		}
	}
	return true
}

// agree compares an observation with one reference result; "" = they agree.
func (h *Harness) agree(exp Expect, obs Observed, prefix []string, fd *ast.FieldDefinition) string {
	key := prefix[len(prefix)-1]
	np := len(prefix)
	for _, e := range append(append([]ErrInfo(nil), obs.Gate...), obs.Errors...) {
		if strings.HasPrefix(e.Msg, "PANIC:") {
			if exp.PanicOK && len(obs.rec.calls) == 0 {
				return ""
			}
			return "panic: user input reached a panic: " + e.Msg
		}
	}
	if exp.PanicOK {
		return "no-panic: the panic deviation does not apply"
	}
	if exp.Reject {
		if len(obs.rec.calls) > 0 {
			if len(obs.Gate)+len(obs.Errors) == 0 {
				return "accepts-invalid: the specification rejects this input (" + strings.Join(exp.ErrPaths, ", ") + ") but the resolver was called with " + strings.Join(obs.Calls, " ") + " and no error was reported"
			}
			return "called-despite-error: the resolver was called although the arguments cannot be coerced"
		}
		if len(obs.Gate)+len(obs.Errors) == 0 {
			return "silent: the input cannot be coerced, yet there is neither an error nor a resolver call"
		}
		// execution-stage errors must sit at the argument's path beneath the field
		for _, e := range obs.Errors {
			ok := len(e.Path) >= np+1 && pathsEqual(e.Path[:np], prefix) && fd.Arguments.ForName(e.Path[np]) != nil
			if ok && !exp.RequestError {
				ok = false
				for _, want := range exp.ErrPaths {
					if pathsAgree(strings.Split(want, "."), e.Path) {
						ok = true
					}
				}
			}
			if !ok {
				return fmt.Sprintf("error-path: the coercion error is reported at path %v, not at the failing argument position (%s)", e.Path, strings.Join(exp.ErrPaths, ", "))
			}
		}
		return ""
	}
	if len(obs.Gate)+len(obs.Errors) > 0 {
		e := append(append([]ErrInfo(nil), obs.Gate...), obs.Errors...)[0]
		return fmt.Sprintf("rejects-valid: the specification coerces this input but gqlgen reports %v %q", e.Path, e.Msg)
	}
	if len(obs.rec.calls) != 1 {
		return fmt.Sprintf("call-count: %d resolver calls for one field", len(obs.rec.calls))
	}
	cl := obs.rec.calls[0]
	if cl.Key != key && !(cl.Method && cl.Name == fd.Name) {
		return "call-count: resolver called for " + cl.Key
	}
	for i, ad := range fd.Arguments {
		var sp *SV
		if v, has := exp.Args[ad.Name]; has {
			sp = &v
		}
		var argT reflect.Type
		var argV reflect.Value
		if cl.Method {
			// a bound model method: find the parameter it reported under this argument's name
			idx := -1
			for j, n := range cl.ArgNames {
				if strings.EqualFold(n, ad.Name) {
					idx = j
				}
			}
			if idx < 0 || idx >= len(cl.Args) || !cl.Args[idx].IsValid() {
				return fmt.Sprintf("value-mismatch: method %s did not receive argument %s", fd.Name, ad.Name)
			}
			argT, argV = cl.Args[idx].Type(), cl.Args[idx]
		} else {
			argT, argV = h.fnType[norm(fd.Name)].In(i+1), cl.Args[i]
		}
		want := RenderExpected(sp, argT, argV)
		got := RenderGo(argV)
		if want != got {
			who := "resolver"
			if cl.Method {
				who = "model method parameter " + ad.Name
			}
			return fmt.Sprintf("value-mismatch: argument %s: specification gives %s, %s received %s", ad.Name, want, who, got)
		}
	}
	wantData := `"ok"`
	for i := np - 1; i >= 0; i-- {
		wantData = `{"` + prefix[i] + `":` + wantData + `}`
	}
	if obs.Data != wantData {
		return "data: unexpected response data " + obs.Data
	}
	for _, d := range obs.rec.dirs {
		if len(d.Path) < 2 || d.Path[0] != key || fd.Arguments.ForName(d.Path[1]) == nil {
			return fmt.Sprintf("directive-path: @ad ran with path context %v, which is not <field>.<argument>...", d.Path)
		}
		var sp *SV
		if v, has := exp.Args[d.Path[1]]; has {
			sp = svAt(&v, d.Path[2:])
		}
		if d.Err != nil {
			return fmt.Sprintf("directive-value: @ad at %v: next returned error %v", d.Path, d.Err)
		}
		got := RenderGo(d.Value)
		want := "null"
		if d.Value.IsValid() {
			want = RenderExpected(sp, d.Value.Type(), d.Value)
		} else if sp != nil && sp.K != "null" {
			want = sp.String()
		}
		if want != got {
			return fmt.Sprintf("directive-value: @ad at %v saw %s, specification gives %s", d.Path, got, want)
		}
	}
	return ""
}

// AllQuirks lists the named deviations in the order they are tried.
var AllQuirks = []string{QStringFromJSONNumber, QIntFromNumericString, QFloatFromNumStringVar, QIDFromJSONFloat, QInt32FromString, QInt64FromString, QUintFromString, QUint32FromString, QUint64FromString,
	QFloatModelFromString, QFloatNonFiniteString,
	QUnsetVarFieldIsNull, QNullFieldDefaultNotApplied, QStrictVarPosition, QPanicHugeIntLiteral, QPanicNullInNestedList}

// Verdict of one case.
type Verdict struct {
	Kind string // "pass" "quirk" "violation"
	Sig  string
	Sig2 string // second deviation of a pair (quirk verdicts only)
	What string
	// Expect under the primary interpretation (for reports)
	Primary Expect
}

func (h *Harness) Judge(c Case, obs Observed) Verdict {
	doc, perr := parser.ParseQuery(&ast.Source{Input: c.Query})
	if perr != nil {
		broken("generated query does not parse: %v: %s", perr, c.Query)
	}
	rawVars, err := DecodeVariables(c.Vars)
	if err != nil {
		broken("generated variables do not decode: %v: %s", err, c.Vars)
	}
	prefix, _, fd := Target(h.Schema, doc)
	eval := func(in Interp, q Quirks) (Expect, string) {
		r := &Ref{Schema: h.Schema, IDKind: h.IDKind, In: in, Q: q}
		exp := r.Evaluate(doc, rawVars)
		return exp, h.agree(exp, obs, prefix, fd)
	}
	interps := AllInterps()
	primary, firstWhy := eval(interps[0], nil)
	if firstWhy == "" {
		return Verdict{Kind: "pass", Primary: primary}
	}
	// detail: the first disagreement in which accept/reject already agreed (more telling
	// than "accepts-invalid" when only a detail differs under some deviation)
	detail := ""
	note := func(why string) {
		if detail == "" && !strings.HasPrefix(why, "accepts-invalid") && !strings.HasPrefix(why, "rejects-valid") && !strings.HasPrefix(why, "no-panic") {
			detail = why
		}
	}
	note(firstWhy)
	for _, in := range interps[1:] {
		_, why := eval(in, nil)
		if why == "" {
			return Verdict{Kind: "pass", Primary: primary}
		}
		note(why)
	}
	// one named deviation: first under the primary interpretation (the common case), then
	// under the others
	for pass := 0; pass < 2; pass++ {
		for _, q := range AllQuirks {
			ins := interps[:1]
			if pass == 1 {
				ins = interps[1:]
			}
			for _, in := range ins {
				_, why := eval(in, Quirks{q: true})
				if why == "" {
					return Verdict{Kind: "quirk", Sig: q, What: firstWhy, Primary: primary}
				}
				note(why)
			}
		}
	}
	// two deviations at once: the null-default deviation together with one other (an omitted
	// `= null` field next to, say, an unset variable); both are reported
	for _, q := range AllQuirks {
		if q == QNullFieldDefaultNotApplied {
			continue
		}
		for _, in := range interps {
			if _, why := eval(in, Quirks{q: true, QNullFieldDefaultNotApplied: true}); why == "" {
				return Verdict{Kind: "quirk", Sig: q, Sig2: QNullFieldDefaultNotApplied, What: firstWhy, Primary: primary}
			}
		}
	}
	if detail == "" {
		detail = firstWhy
	}
	kind := detail
	if i := strings.Index(kind, ":"); i > 0 {
		kind = kind[:i]
	}
	return Verdict{Kind: "violation", Sig: kind + ":" + c.PosType + "<-" + c.Class + "/" + c.Mode, What: detail, Primary: primary}
}

// ---------------------------------------------------------------------------------------
// harness main

type Finding struct {
	Sig   string   `json:"sig"`
	Quirk bool     `json:"quirk"`
	What  string   `json:"what"`
	Case  Case     `json:"case"`
	Obs   Observed `json:"observed"`
	Count int      `json:"count"`
}

type Sample struct {
	Case     Case     `json:"case"`
	Expected string   `json:"expected"`
	Obs      Observed `json:"observed"`
}

type Result struct {
	Config       string         `json:"config"`
	IDKind       string         `json:"id_binding"`
	Positions    int            `json:"positions"`
	Cases        int            `json:"cases"`
	Evaluated    int            `json:"evaluated"`
	Nontrivial   int            `json:"nontrivial"`
	ExpectCoerce int            `json:"spec_coerces"`
	ExpectReject int            `json:"spec_rejects"`
	ByMode       map[string]int `json:"by_mode"`
	Verdicts     map[string]int `json:"verdicts"`
	Complete     bool           `json:"complete"`
	RunS         float64        `json:"run_s"`
	Findings     []Finding      `json:"findings"`
	Samples      []Sample       `json:"samples"`
}

func argValue(name string) string {
	for i, a := range os.Args {
		if a == name && i+1 < len(os.Args) {
			return os.Args[i+1]
		}
	}
	return ""
}

func expectString(e Expect) string {
	if e.Reject {
		return "reject at " + strings.Join(e.ErrPaths, ", ")
	}
	keys := make([]string, 0, len(e.Args))
	for k := range e.Args {
		keys = append(keys, k)
	}
	sort.Strings(keys)
	parts := make([]string, len(keys))
	for i, k := range keys {
		parts[i] = k + "=" + e.Args[k].String()
	}
	return "coerce to (" + strings.Join(parts, "; ") + ")"
}

// HarnessMain is the entry point of the per-configuration harness binary.
func HarnessMain(es graphql.ExecutableSchema, stub any) {
	h := NewHarness(es, stub)
	if rp := argValue("--replay-case"); rp != "" {
		b, err := os.ReadFile(rp)
		if err != nil {
			broken("replay: %v", err)
		}
		var doc struct {
			Replay struct {
				Case Case `json:"case"`
			} `json:"replay"`
		}
		if err := json.Unmarshal(b, &doc); err != nil {
			broken("replay: %v", err)
		}
		c := doc.Replay.Case
		obs := h.Run(c)
		v := h.Judge(c, obs)
		ob, _ := json.MarshalIndent(obs, "", " ")
		fmt.Printf("case: %s\nspecification (primary interpretation): %s\nobserved: %s\nverdict: %s %s\n  %s\n", c, expectString(v.Primary), ob, v.Kind, v.Sig, v.What)
		if v.Kind == "violation" {
			os.Exit(1)
		}
		os.Exit(0)
	}
	maxSteps := 2
	if argValue("--tier") == "thorough" {
		maxSteps = 4
	}
	if s := argValue("--max-steps"); s != "" {
		maxSteps, _ = strconv.Atoi(s)
	}
	t0 := time.Now()
	g := &Gen{Schema: h.Schema, MaxSteps: maxSteps}
	cases := g.All()
	var deadline time.Time
	if d := argValue("--deadline"); d != "" {
		n, _ := strconv.ParseInt(d, 10, 64)
		deadline = time.Unix(n, 0)
	}
	workers := runtime.NumCPU()
	if w := argValue("--workers"); w != "" {
		workers, _ = strconv.Atoi(w)
	}
	type slot struct {
		done bool
		v    Verdict
		obs  Observed
	}
	slots := make([]slot, len(cases))
	var wg sync.WaitGroup
	next := make(chan int, 256)
	for w := 0; w < workers; w++ {
		wg.Add(1)
		go func() {
			defer wg.Done()
			for i := range next {
				obs := h.Run(cases[i])
				slots[i] = slot{done: true, v: h.Judge(cases[i], obs), obs: obs}
			}
		}()
	}
	complete := true
	for i := range cases {
		if i%512 == 0 && !deadline.IsZero() && time.Now().After(deadline) {
			complete = false
			break
		}
		next <- i
	}
	close(next)
	wg.Wait()

	res := Result{Config: os.Getenv("VERIF_CONFIG"), IDKind: h.IDKind, Positions: len(g.Positions()), Cases: len(cases),
		ByMode: map[string]int{}, Verdicts: map[string]int{}, Complete: complete}
	bySig := map[string]int{}
	sampled := map[string]bool{}
	for i, s := range slots {
		if !s.done {
			continue
		}
		c := cases[i]
		res.Evaluated++
		res.ByMode[c.Mode]++
		if s.v.Primary.Reject {
			res.ExpectReject++
		} else {
			res.ExpectCoerce++
		}
		nontrivial := len(s.obs.Gate)+len(s.obs.Errors) > 0
		for _, cl := range s.obs.rec.calls {
			for _, a := range cl.Args {
				if RenderGo(a) != "null" {
					nontrivial = true
				}
			}
		}
		if nontrivial {
			res.Nontrivial++
		}
		res.Verdicts[s.v.Kind]++
		if s.v.Kind != "pass" {
			for _, sig := range []string{s.v.Sig, s.v.Sig2} {
				if sig == "" {
					continue
				}
				if idx, seen := bySig[sig]; seen {
					res.Findings[idx].Count++
				} else {
					bySig[sig] = len(res.Findings)
					res.Findings = append(res.Findings, Finding{Sig: sig, Quirk: s.v.Kind == "quirk", What: s.v.What, Case: c, Obs: s.obs, Count: 1})
				}
			}
		} else if nontrivial && !sampled[c.Mode] && len(res.Samples) < 8 {
			sampled[c.Mode] = true
			res.Samples = append(res.Samples, Sample{Case: c, Expected: expectString(s.v.Primary), Obs: s.obs})
		}
	}
	res.RunS = time.Since(t0).Seconds()
	out, _ := json.Marshal(res)
	os.Stdout.Write(append(out, '\n'))
}

// Package c02lib is the oracle and enumeration machinery of check C02: a reference
// implementation of the GraphQL specification's CoerceVariableValues /
// CoerceArgumentValues / input-coercion rules (this file), a bounded-exhaustive request
// generator over a probe schema (gen.go) and the harness that runs every request through
// the executor generated from the tree under test and compares (run.go).
//
// The reference is written from the specification text (October 2021, section 3.5 scalars,
// 3.10 input objects, 3.11 lists, 6.1.2 CoerceVariableValues, 6.4.1 CoerceArgumentValues).
// It never looks at what gqlgen does. Points the specification leaves open, or that gqlgen
// documents as its own choice, are explicit fields of Interp; accepted-but-invalid input
// classes ("leniencies") are named Quirks that are OFF in the reference proper.
package c02lib

import (
	"bytes"
	"encoding/json"
	"fmt"
	"math"
	"math/big"
	"sort"
	"strconv"
	"strings"

	"github.com/vektah/gqlparser/v2/ast"
)

// SV is a spec-coerced input value.
type SV struct {
	K string   // "null" "bool" "int" "float" "string" (also enums and IDs) "lit" "list" "object"
	B bool     // bool
	I *big.Int // int (also int-bound IDs)
	F float64  // float
	S string   // string / enum / lit canonical text
	L []SV     // list
	O []SField // object: only the fields that are present after coercion, schema order
}

type SField struct {
	Name string
	V    SV
}

func (o SV) Field(name string) (SV, bool) {
	for _, f := range o.O {
		if f.Name == name {
			return f.V, true
		}
	}
	return SV{}, false
}

var nullSV = SV{K: "null"}

func (v SV) String() string {
	switch v.K {
	case "null":
		return "null"
	case "bool":
		return strconv.FormatBool(v.B)
	case "int":
		return v.I.String()
	case "float":
		return "f:" + strconv.FormatFloat(v.F, 'g', -1, 64)
	case "string":
		return strconv.Quote(v.S)
	case "lit":
		return "Lit(" + v.S + ")"
	case "list":
		parts := make([]string, len(v.L))
		for i, e := range v.L {
			parts[i] = e.String()
		}
		return "[" + strings.Join(parts, ",") + "]"
	case "object":
		parts := make([]string, len(v.O))
		for i, f := range v.O {
			parts[i] = f.Name + ":" + f.V.String()
		}
		return "{" + strings.Join(parts, ",") + "}"
	}
	return "?" + v.K
}

// Interp fixes the points that the specification leaves to the service, or that depend on
// the transport's number representation. The check accepts the implementation if it
// agrees with the reference under SOME interpretation (all combinations are tried).
type Interp struct {
	// A JSON number written with a fraction/exponent but with an integral value (1.0, 1e3)
	// supplied for Int or ID: true = it is the integer, false = it is a float (rejected).
	IntegralFloatIsInteger bool
	// An integer token outside the signed 64-bit range supplied where the specification
	// itself sets no range (Float, ID, custom scalar, the unsigned 64-bit models): false =
	// the service may reject it.
	HugeIntegerAccepted bool
	// `[1, $v]` with $v not provided: the 2021 text does not define the element; true = the
	// element is null (June 2018 graphql-js behaviour and current draft), false = rejected.
	UnsetVariableInListIsNull bool
}

func AllInterps() []Interp {
	var out []Interp
	for i := 0; i < 8; i++ {
		out = append(out, Interp{i&1 == 0, i&2 == 0, i&4 == 0})
	}
	return out
}

// Quirk names: classes of input the specification rejects. With a quirk switched on the
// reference accepts that class with the stated result. Every quirk is a finding
// signature; none is on in the reference proper.
const (
	// a JSON number supplied through variables for String: accepted, the string is the number's text
	QStringFromJSONNumber = "leniency:String<-json-number"
	// a JSON string holding a base-10 int64 supplied through variables for Int: accepted as that integer
	QIntFromNumericString = "leniency:Int<-json-integer-string"
	// a JSON string that strconv.ParseFloat accepts supplied through variables for Float
	QFloatFromNumStringVar = "leniency:Float<-json-numeric-string"
	// a JSON number with fraction/exponent supplied through variables for ID: accepted, the ID is the number's text
	QIDFromJSONFloat = "leniency:ID<-json-float"
	// the integer models (probe scalars I32/I64/U/U32/U64 bound to graphql.Int32/Int64/Uint/
	// Uint32/Uint64) accept a string holding a base-10 integer of the type's range, as a
	// literal and through variables; the value is that integer
	QInt32FromString  = "leniency:Int32<-integer-string"
	QInt64FromString  = "leniency:Int64<-integer-string"
	QUintFromString   = "leniency:Uint<-integer-string"
	QUint32FromString = "leniency:Uint32<-integer-string"
	QUint64FromString = "leniency:Uint64<-integer-string"
	// graphql.Float bound to a custom scalar (probe scalar F): a string that
	// strconv.ParseFloat turns into a finite number is accepted, literal or variable
	QFloatModelFromString = "leniency:Float(custom-scalar binding)<-numeric-string"
	// "NaN", "Infinity", "inf" ... as a string: graphql.UnmarshalFloat hands the resolver a
	// non-finite float (built-in Float through variables; custom binding also as a literal)
	QFloatNonFiniteString = "leniency:Float<-non-finite-string"
	// gqlparser's ast.Value.Value turns a variable WITHOUT a runtime value that is used as
	// an input-object field value inside a literal into an explicit null: the field's default
	// is not applied, an Omittable field is set(null), a map-backed input has the key.
	QUnsetVarFieldIsNull = "deviation:unset-variable-as-input-object-field-reads-as-explicit-null"
	// gqlparser's VariablesInAllowedPosition ignores the default value of the argument /
	// input field (spec 5.8.5 hasLocationDefaultValue): a nullable variable at a non-null
	// position that declares a default is rejected although the specification allows it.
	QStrictVarPosition = "strictness:nullable-variable-at-non-null-position-with-default-rejected"
	// an integer literal outside int64 at a custom-scalar position (which gqlparser's
	// validator skips) makes ast.arg2map panic in the generated field function.
	QPanicHugeIntLiteral = "panic:custom-scalar<-integer-literal-beyond-int64"
	// a null element in a variable value for a list-of-lists type makes gqlparser's
	// validator.VariableValues panic (reflect on a zero Value) outside any recover of the executor.
	QPanicNullInNestedList = "panic:variable-of-nested-list-type<-null-inner-list"
	// an input field whose declared default is the literal null (`f: Float = null`): when the
	// field is omitted the specification uses the default, i.e. the coerced object HAS the
	// entry with value null; the generated unmarshalInput* injects no default (its template
	// tests the Go value of the default, which is nil), so an Omittable field stays unset and
	// a map-backed input has no key.
	QNullFieldDefaultNotApplied = "deviation:input-field-default-null-is-not-applied"
)

// Quirks is the set of switched-on deviations.
type Quirks map[string]bool

// Ref is one reference evaluation.
type Ref struct {
	Schema *ast.Schema
	// IDKind is the Go binding of ID: "string" (graphql.ID), "int" (graphql.IntID),
	// "uint" (graphql.UintID). Scalars named IntID / UintID are always int / uint.
	IDKind string
	In     Interp
	Q      Quirks

	// VarDefs: variable definitions of the operation (for QStrictVarPosition)
	VarDefs ast.VariableDefinitionList
	// PanicOK is set when a panic-quirk that is switched on applies to the request
	PanicOK bool

	// results
	VarErr   []string // paths (dot form, starting "variable.") of failed variable coercions
	FieldErr []string // paths (dot form, starting at the response key) of failed argument coercions
}

func (r *Ref) failVar(path []string)   { r.VarErr = append(r.VarErr, strings.Join(path, ".")) }
func (r *Ref) failField(path []string) { r.FieldErr = append(r.FieldErr, strings.Join(path, ".")) }

func cp(path []string, more ...string) []string {
	out := make([]string, 0, len(path)+len(more))
	out = append(out, path...)
	return append(out, more...)
}

// ---------------------------------------------------------------------------------------
// scalars

var (
	minInt64 = big.NewInt(math.MinInt64)
	maxInt64 = big.NewInt(math.MaxInt64)
	maxUint  = new(big.Int).SetUint64(math.MaxUint64)
)

func fitsInt64(i *big.Int) bool { return i.Cmp(minInt64) >= 0 && i.Cmp(maxInt64) <= 0 }

// number is a numeric token (GraphQL IntValue/FloatValue or JSON number).
type number struct {
	raw       string
	intSyntax bool     // no fraction, no exponent
	i         *big.Int // exact integer value when the value is integral
	f         float64
}

func parseNumber(raw string) (number, bool) {
	n := number{raw: raw}
	if i, ok := new(big.Int).SetString(raw, 10); ok && !strings.HasPrefix(raw, "+") {
		n.intSyntax = true
		n.i = i
		n.f, _ = new(big.Float).SetInt(i).Float64()
		return n, true
	}
	f, err := strconv.ParseFloat(raw, 64)
	if err != nil {
		return n, false
	}
	n.f = f
	if r, ok := new(big.Rat).SetString(raw); ok && r.IsInt() {
		n.i = new(big.Int).Set(r.Num())
	}
	return n, true
}

// CanonFloat mirrors the definition of the probe's custom scalar (probe/scalars/lit.go):
// that file is part of the probe's *schema definition* (what Lit means), not of gqlgen.
func CanonFloat(f float64) string {
	if f == math.Trunc(f) && math.Abs(f) < 1e15 {
		return strconv.FormatInt(int64(f), 10)
	}
	return strconv.FormatFloat(f, 'g', -1, 64)
}

// in is a scalar-position input in a source-independent form.
type in struct {
	kind    string // "number" "string" "bool" "enum" "list" "object"
	num     number
	s       string
	literal bool // from query text (true) or from JSON variables (false)
}

func (r *Ref) idBinding(name string) string {
	switch name {
	case "IntID":
		return "int"
	case "UintID":
		return "uint"
	}
	if r.IDKind == "" {
		return "string"
	}
	return r.IDKind
}

// intModel gives the value range of the probe's integer scalars (the range of the Go type
// of the gqlgen model they are bound to; uint is 64 bit here) and the name of the
// string-acceptance leniency of that model.
func intModel(name string) (lo, hi *big.Int, quirk string) {
	switch name {
	case "I32":
		return big.NewInt(math.MinInt32), big.NewInt(math.MaxInt32), QInt32FromString
	case "I64":
		return minInt64, maxInt64, QInt64FromString
	case "U":
		return big.NewInt(0), maxUint, QUintFromString
	case "U32":
		return big.NewInt(0), big.NewInt(math.MaxUint32), QUint32FromString
	case "U64":
		return big.NewInt(0), maxUint, QUint64FromString
	}
	panic("intModel: " + name)
}

// decimalDigits: optional '-' followed by digits only (what every strconv integer parser
// of base 10 agrees on; "+1" and "1_0" are left out of the leniency definitions).
func decimalDigits(s string) bool {
	if strings.HasPrefix(s, "-") {
		s = s[1:]
	}
	if s == "" {
		return false
	}
	for _, c := range s {
		if c < '0' || c > '9' {
			return false
		}
	}
	return true
}

func builtinScalar(name string) bool {
	switch name {
	case "Int", "Float", "String", "Boolean", "ID":
		return true
	}
	return false
}

// coerceScalar implements section 3.5 input coercion for the built-in scalars, the
// probe's Lit scalar and the ID-like scalars. ok=false: the value cannot be coerced.
func (r *Ref) coerceScalar(name string, x in) (SV, bool) {
	switch name {
	case "Int":
		// "only integer input values are accepted"; range: gqlgen documents that Int is Go
		// int (64 bit here) unless the schema asks for Int32 — the probe does not.
		if x.kind == "number" {
			if x.num.intSyntax || (!x.literal && x.num.i != nil && r.In.IntegralFloatIsInteger) {
				if fitsInt64(x.num.i) {
					return SV{K: "int", I: x.num.i}, true
				}
			}
			return SV{}, false
		}
		if x.kind == "string" && !x.literal && r.Q[QIntFromNumericString] {
			if i, err := strconv.ParseInt(x.s, 10, 64); err == nil {
				return SV{K: "int", I: big.NewInt(i)}, true
			}
		}
		return SV{}, false
	case "I32", "I64", "U", "U32", "U64":
		// the probe's integer scalars: the specification's Int semantics (integers only)
		// with the range of the Go type they are bound to
		lo, hi, quirk := intModel(name)
		if x.kind == "number" && (x.num.intSyntax || (!x.literal && x.num.i != nil && r.In.IntegralFloatIsInteger)) {
			if !fitsInt64(x.num.i) && !r.In.HugeIntegerAccepted {
				// (an unsigned 64-bit value beyond int64: the service may not take such tokens)
				return SV{}, false
			}
			if x.num.i.Cmp(lo) >= 0 && x.num.i.Cmp(hi) <= 0 {
				return SV{K: "int", I: x.num.i}, true
			}
		}
		if x.kind == "string" && r.Q[quirk] {
			if i, ok := new(big.Int).SetString(x.s, 10); ok && decimalDigits(x.s) && i.Cmp(lo) >= 0 && i.Cmp(hi) <= 0 {
				return SV{K: "int", I: i}, true
			}
		}
		return SV{}, false
	case "F":
		if x.kind == "number" {
			return r.coerceScalar("Float", x)
		}
		if x.kind == "string" {
			if f, err := strconv.ParseFloat(x.s, 64); err == nil {
				finite := !math.IsInf(f, 0) && !math.IsNaN(f)
				if (finite && r.Q[QFloatModelFromString]) || (!finite && r.Q[QFloatNonFiniteString]) {
					return SV{K: "float", F: f}, true
				}
			}
		}
		return SV{}, false
	case "Float":
		// "both integer and float input values are accepted"
		if x.kind == "number" {
			if x.num.intSyntax && !fitsInt64(x.num.i) && !r.In.HugeIntegerAccepted {
				return SV{}, false
			}
			if math.IsInf(x.num.f, 0) {
				return SV{}, false
			}
			return SV{K: "float", F: x.num.f}, true
		}
		if x.kind == "string" && !x.literal {
			if f, err := strconv.ParseFloat(x.s, 64); err == nil {
				finite := !math.IsInf(f, 0) && !math.IsNaN(f)
				if (finite && r.Q[QFloatFromNumStringVar]) || (!finite && r.Q[QFloatNonFiniteString]) {
					return SV{K: "float", F: f}, true
				}
			}
		}
		return SV{}, false
	case "String":
		if x.kind == "string" {
			return SV{K: "string", S: x.s}, true
		}
		if x.kind == "number" && !x.literal && r.Q[QStringFromJSONNumber] {
			return SV{K: "string", S: x.num.raw}, true
		}
		return SV{}, false
	case "Boolean":
		if x.kind == "bool" {
			return SV{K: "bool", B: x.s == "true"}, true
		}
		return SV{}, false
	case "ID", "IntID", "UintID":
		// "any string or integer input value"; float, boolean, ... must be rejected.
		var text string
		switch {
		case x.kind == "string":
			text = x.s
		case x.kind == "number" && x.num.intSyntax:
			if !fitsInt64(x.num.i) && !r.In.HugeIntegerAccepted {
				return SV{}, false
			}
			text = x.num.i.String()
		case x.kind == "number" && !x.literal && x.num.i != nil && r.In.IntegralFloatIsInteger:
			if !fitsInt64(x.num.i) && !r.In.HugeIntegerAccepted {
				return SV{}, false
			}
			text = x.num.i.String()
		case x.kind == "number" && !x.literal && name == "ID" && r.Q[QIDFromJSONFloat]:
			text = x.num.raw
		default:
			return SV{}, false
		}
		switch r.idBinding(name) {
		case "string":
			return SV{K: "string", S: text}, true
		case "int":
			// the ID must denote an integer the Go int binding can hold
			i, ok := new(big.Int).SetString(text, 10)
			if !ok || strings.HasPrefix(text, "+") || !fitsInt64(i) {
				return SV{}, false
			}
			return SV{K: "int", I: i}, true
		default:
			i, ok := new(big.Int).SetString(text, 10)
			if !ok || strings.HasPrefix(text, "+") || strings.HasPrefix(text, "-") || i.Cmp(maxUint) > 0 {
				return SV{}, false
			}
			return SV{K: "int", I: i}, true
		}
	case "Lit":
		// the probe's custom scalar: strings, numbers and booleans (and a bare name in query
		// text, which a scalar sees as a string); its value is a canonical text.
		switch x.kind {
		case "string", "enum":
			return SV{K: "lit", S: "s:" + x.s}, true
		case "bool":
			return SV{K: "lit", S: "b:" + x.s}, true
		case "number":
			if x.num.intSyntax {
				if !fitsInt64(x.num.i) && !r.In.HugeIntegerAccepted {
					return SV{}, false
				}
				return SV{K: "lit", S: "n:" + x.num.i.String()}, true
			}
			return SV{K: "lit", S: "n:" + CanonFloat(x.num.f)}, true
		}
		return SV{}, false
	}
	panic("reference: unknown scalar " + name)
}

// ---------------------------------------------------------------------------------------
// JSON (variable) values — section 6.1.2 with the per-type rules of 3.5/3.9/3.10/3.11

// coerceJSON coerces a decoded JSON value (json.Number numbers) to type t.
func (r *Ref) coerceJSON(t *ast.Type, j any, path []string, fail func([]string)) (SV, bool) {
	if j == nil {
		if t.NonNull {
			fail(path)
			return SV{}, false
		}
		return nullSV, true
	}
	if t.Elem != nil {
		if l, ok := j.([]any); ok {
			out := SV{K: "list", L: []SV{}}
			good := true
			for i, e := range l {
				if e == nil && t.Elem.Elem != nil && r.Q[QPanicNullInNestedList] {
					r.PanicOK = true
				}
				v, ok := r.coerceJSON(t.Elem, e, cp(path, strconv.Itoa(i)), fail)
				if !ok {
					good = false
					continue
				}
				out.L = append(out.L, v)
			}
			return out, good
		}
		// "If the value passed as an input to a list type is not a list and not the null
		// value, then the result of input coercion is a list of size one"
		v, ok := r.coerceJSON(t.Elem, j, path, fail)
		if !ok {
			return SV{}, false
		}
		return SV{K: "list", L: []SV{v}}, true
	}
	def := r.Schema.Types[t.NamedType]
	switch def.Kind {
	case ast.Scalar:
		var x in
		switch j := j.(type) {
		case json.Number:
			n, ok := parseNumber(string(j))
			if !ok {
				fail(path)
				return SV{}, false
			}
			x = in{kind: "number", num: n}
		case string:
			x = in{kind: "string", s: j}
		case bool:
			x = in{kind: "bool", s: strconv.FormatBool(j)}
		case []any:
			x = in{kind: "list"}
		case map[string]any:
			x = in{kind: "object"}
		default:
			panic(fmt.Sprintf("reference: unexpected JSON value %T", j))
		}
		v, ok := r.coerceScalar(def.Name, x)
		if !ok {
			fail(path)
		}
		return v, ok
	case ast.Enum:
		// variables carry enum values as strings naming the value
		if s, ok := j.(string); ok && def.EnumValues.ForName(s) != nil {
			return SV{K: "string", S: s}, true
		}
		fail(path)
		return SV{}, false
	case ast.InputObject:
		m, ok := j.(map[string]any)
		if !ok {
			fail(path)
			return SV{}, false
		}
		good := true
		keys := make([]string, 0, len(m))
		for k := range m {
			keys = append(keys, k)
		}
		sort.Strings(keys)
		for _, k := range keys {
			if def.Fields.ForName(k) == nil {
				fail(cp(path, k))
				good = false
			}
		}
		out := SV{K: "object"}
		for _, fd := range def.Fields {
			fv, has := m[fd.Name]
			switch {
			case !has && fd.DefaultValue != nil && fd.DefaultValue.Kind == ast.NullValue && r.Q[QNullFieldDefaultNotApplied]:
				// deviation: no entry
			case !has && fd.DefaultValue != nil:
				dv, ok := r.constant(fd.Type, fd.DefaultValue)
				if !ok {
					fail(cp(path, fd.Name))
					good = false
					continue
				}
				out.O = append(out.O, SField{fd.Name, dv})
			case !has && fd.Type.NonNull:
				fail(cp(path, fd.Name))
				good = false
			case !has:
				// no entry
			default:
				v, ok := r.coerceJSON(fd.Type, fv, cp(path, fd.Name), fail)
				if !ok {
					good = false
					continue
				}
				out.O = append(out.O, SField{fd.Name, v})
			}
		}
		return out, good
	}
	panic("reference: not an input type: " + def.Name)
}

// constant coerces a schema default value (a const literal) to its type. ok=false: the
// default does not coerce under the configured Go binding (e.g. `ID = "abc"` with ID bound
// to int) — using the default is then a coercion failure at that position.
func (r *Ref) constant(t *ast.Type, v *ast.Value) (SV, bool) {
	// (deviations that concern defaults also hold inside a default: `din: DefIn = {}`)
	quiet := &Ref{Schema: r.Schema, IDKind: r.IDKind, In: Interp{true, true, true}, Q: Quirks{QNullFieldDefaultNotApplied: r.Q[QNullFieldDefaultNotApplied]}}
	sv, present, ok := quiet.coerceLiteral(t, v, nil, nil, func([]string) {})
	if !ok || !present {
		return SV{}, false
	}
	return sv, true
}

// ---------------------------------------------------------------------------------------
// literals (query text), possibly containing variables — sections 3.5–3.11, 6.4.1

// coerceLiteral coerces the literal v to t. vars are the coerced variable values (a
// variable absent from the map has no runtime value). present=false: v is a variable
// without a runtime value (the enclosing position is then treated as not provided).
func (r *Ref) coerceLiteral(t *ast.Type, v *ast.Value, vars map[string]SV, path []string, fail func([]string)) (sv SV, present bool, ok bool) {
	if v.Kind == ast.Variable {
		val, has := vars[v.Raw]
		if !has {
			return SV{}, false, true
		}
		if val.K == "null" && t.NonNull {
			fail(path)
			return SV{}, true, false
		}
		// variables were coerced against their declared type, which the "all variable
		// usages are allowed" rule makes compatible with t
		return val, true, true
	}
	if v.Kind == ast.NullValue {
		if t.NonNull {
			fail(path)
			return SV{}, true, false
		}
		return nullSV, true, true
	}
	if t.Elem != nil {
		if v.Kind == ast.ListValue {
			out := SV{K: "list", L: []SV{}}
			good := true
			for i, c := range v.Children {
				ep := cp(path, strconv.Itoa(i))
				e, pres, ok := r.coerceLiteral(t.Elem, c.Value, vars, ep, fail)
				if !ok {
					good = false
					continue
				}
				if !pres {
					if !r.In.UnsetVariableInListIsNull || t.Elem.NonNull {
						fail(ep)
						good = false
						continue
					}
					e = nullSV
				}
				out.L = append(out.L, e)
			}
			return out, true, good
		}
		e, pres, ok := r.coerceLiteral(t.Elem, v, vars, path, fail)
		if !ok {
			return SV{}, true, false
		}
		if !pres {
			return SV{}, false, true
		}
		return SV{K: "list", L: []SV{e}}, true, true
	}
	def := r.Schema.Types[t.NamedType]
	switch def.Kind {
	case ast.Scalar:
		var x in
		switch v.Kind {
		case ast.IntValue, ast.FloatValue:
			n, okn := parseNumber(v.Raw)
			if !okn {
				fail(path)
				return SV{}, true, false
			}
			if v.Kind == ast.FloatValue {
				n.intSyntax = false // 1.0 in query text is a FloatValue whatever its value
			}
			if n.intSyntax && !fitsInt64(n.i) && !builtinScalar(def.Name) && r.Q[QPanicHugeIntLiteral] {
				r.PanicOK = true
			}
			x = in{kind: "number", num: n, literal: true}
		case ast.StringValue, ast.BlockValue:
			x = in{kind: "string", s: v.Raw, literal: true}
		case ast.BooleanValue:
			x = in{kind: "bool", s: v.Raw, literal: true}
		case ast.EnumValue:
			x = in{kind: "enum", s: v.Raw, literal: true}
		case ast.ListValue:
			x = in{kind: "list", literal: true}
		case ast.ObjectValue:
			x = in{kind: "object", literal: true}
		}
		sv, ok := r.coerceScalar(def.Name, x)
		if !ok {
			fail(path)
		}
		return sv, true, ok
	case ast.Enum:
		if v.Kind == ast.EnumValue && def.EnumValues.ForName(v.Raw) != nil {
			return SV{K: "string", S: v.Raw}, true, true
		}
		fail(path)
		return SV{}, true, false
	case ast.InputObject:
		if v.Kind != ast.ObjectValue {
			fail(path)
			return SV{}, true, false
		}
		good := true
		for _, c := range v.Children {
			if def.Fields.ForName(c.Name) == nil {
				fail(cp(path, c.Name))
				good = false
			}
		}
		out := SV{K: "object"}
		for _, fd := range def.Fields {
			fp := cp(path, fd.Name)
			c := v.Children.ForName(fd.Name)
			var fv SV
			has := false
			if c != nil {
				if c.Kind == ast.Variable && fd.DefaultValue != nil && r.strictVarPosition(c.Raw, fd.Type) {
					fail(fp)
					good = false
					continue
				}
				if c.Kind == ast.Variable && r.Q[QUnsetVarFieldIsNull] {
					if _, set := vars[c.Raw]; !set {
						// deviation: a variable without a runtime value reads as an explicit null
						if fd.Type.NonNull {
							// and a non-null scalar position silently receives the zero value
							fail(fp)
							good = false
							continue
						}
						out.O = append(out.O, SField{fd.Name, nullSV})
						continue
					}
				}
				val, pres, ok := r.coerceLiteral(fd.Type, c, vars, fp, fail)
				if !ok {
					good = false
					continue
				}
				fv, has = val, pres
			}
			switch {
			case !has && fd.DefaultValue != nil && fd.DefaultValue.Kind == ast.NullValue && r.Q[QNullFieldDefaultNotApplied]:
				// deviation: no entry
			case !has && fd.DefaultValue != nil:
				dv, ok := r.constant(fd.Type, fd.DefaultValue)
				if !ok {
					fail(fp)
					good = false
					continue
				}
				out.O = append(out.O, SField{fd.Name, dv})
			case !has && fd.Type.NonNull:
				fail(fp)
				good = false
			case !has:
			default:
				out.O = append(out.O, SField{fd.Name, fv})
			}
		}
		return out, true, good
	}
	panic("reference: not an input type: " + def.Name)
}

// ---------------------------------------------------------------------------------------
// request level

// Expect is what the specification says about one root field of a request.
type Expect struct {
	// RequestError: variable coercion failed — nothing may execute.
	RequestError bool
	// Reject: the field's arguments cannot be coerced — its resolver must not be called.
	Reject bool
	// ErrPaths: the positions that fail (dot paths; "variable.v..." or "<key>.<arg>...").
	ErrPaths []string
	// PanicOK: a switched-on panic quirk applies; a recovered panic is the expected outcome
	PanicOK bool
	// Args: coerced argument values; an argument without entry was not provided and has no default.
	Args map[string]SV
}

// strictVarPosition: with QStrictVarPosition on, a nullable variable without a non-null
// default used at a non-null location is a validation error even when the location has a
// default value.
func (r *Ref) strictVarPosition(name string, loc *ast.Type) bool {
	if !r.Q[QStrictVarPosition] || !loc.NonNull {
		return false
	}
	vd := r.VarDefs.ForName(name)
	if vd == nil || vd.Type.NonNull {
		return false
	}
	return vd.DefaultValue == nil || vd.DefaultValue.Kind == ast.NullValue
}

// nullInNestedList: the literal holds a null element in a list whose element type is a list.
func nullInNestedList(t *ast.Type, v *ast.Value) bool {
	if t.Elem == nil || v == nil || v.Kind != ast.ListValue {
		return false
	}
	for _, c := range v.Children {
		if c.Value.Kind == ast.NullValue && t.Elem.Elem != nil {
			return true
		}
		if nullInNestedList(t.Elem, c.Value) {
			return true
		}
	}
	return false
}

// Target finds the field whose arguments a request exercises: the first root field, or —
// when that root field takes no arguments and selects an object (the probe's `box`) — the
// first field selected on that object. prefix is the response path of the target field.
func Target(schema *ast.Schema, doc *ast.QueryDocument) (prefix []string, f *ast.Field, fd *ast.FieldDefinition) {
	respKey := func(f *ast.Field) string {
		if f.Alias != "" {
			return f.Alias
		}
		return f.Name
	}
	f = doc.Operations[0].SelectionSet[0].(*ast.Field)
	fd = schema.Query.Fields.ForName(f.Name)
	prefix = []string{respKey(f)}
	for len(fd.Arguments) == 0 && len(f.SelectionSet) > 0 {
		parent := schema.Types[fd.Type.Name()]
		f = f.SelectionSet[0].(*ast.Field)
		fd = parent.Fields.ForName(f.Name)
		prefix = append(prefix, respKey(f))
	}
	return prefix, f, fd
}

// Evaluate runs CoerceVariableValues and CoerceArgumentValues for the first root field of
// the (single) operation of doc.
func (r *Ref) Evaluate(doc *ast.QueryDocument, rawVars map[string]any) Expect {
	op := doc.Operations[0]
	r.VarDefs = op.VariableDefinitions
	vars := map[string]SV{}
	reqOK := true
	for _, vd := range op.VariableDefinitions {
		path := []string{"variable", vd.Variable}
		raw, has := rawVars[vd.Variable]
		switch {
		case !has && vd.DefaultValue != nil:
			// (a variable default is request text: it may fail to coerce, e.g. "abc" for an ID
			// bound to int)
			if r.Q[QPanicNullInNestedList] && nullInNestedList(vd.Type, vd.DefaultValue) {
				r.PanicOK = true // the default goes through the same validator.VariableValues
			}
			quiet := &Ref{Schema: r.Schema, IDKind: r.IDKind, In: r.In, Q: r.Q}
			dv, pres, ok := quiet.coerceLiteral(vd.Type, vd.DefaultValue, nil, path, r.failVar)
			if !ok || !pres {
				reqOK = false
				continue
			}
			vars[vd.Variable] = dv
		case vd.Type.NonNull && (!has || raw == nil):
			r.failVar(path)
			reqOK = false
		case has:
			v, ok := r.coerceJSON(vd.Type, raw, path, r.failVar)
			if !ok {
				reqOK = false
				continue
			}
			vars[vd.Variable] = v
		}
	}
	if !reqOK {
		return Expect{RequestError: true, Reject: true, ErrPaths: r.VarErr, PanicOK: r.PanicOK}
	}
	prefix, f, fd := Target(r.Schema, doc)
	args := map[string]SV{}
	good := true
	for _, ad := range fd.Arguments {
		path := cp(prefix, ad.Name)
		a := f.Arguments.ForName(ad.Name)
		var val SV
		has := false
		if a != nil {
			if a.Value.Kind == ast.Variable && ad.DefaultValue != nil && r.strictVarPosition(a.Value.Raw, ad.Type) {
				r.failField(path)
				good = false
				continue
			}
			v, pres, ok := r.coerceLiteral(ad.Type, a.Value, vars, path, r.failField)
			if !ok {
				good = false
				continue
			}
			val, has = v, pres
		}
		switch {
		case !has && ad.DefaultValue != nil:
			dv, ok := r.constant(ad.Type, ad.DefaultValue)
			if !ok {
				r.failField(path)
				good = false
				continue
			}
			args[ad.Name] = dv
		case !has && ad.Type.NonNull:
			r.failField(path)
			good = false
		case !has:
		default:
			args[ad.Name] = val
		}
	}
	for _, a := range f.Arguments {
		if fd.Arguments.ForName(a.Name) == nil {
			r.failField(cp(prefix, a.Name))
			good = false
		}
	}
	if !good {
		return Expect{Reject: true, ErrPaths: r.FieldErr, PanicOK: r.PanicOK}
	}
	return Expect{Args: args, PanicOK: r.PanicOK}
}

// DecodeVariables decodes the variables JSON exactly as gqlgen's transports decode a
// request body (json.Decoder with UseNumber).
func DecodeVariables(text string) (map[string]any, error) {
	if text == "" {
		return nil, nil
	}
	dec := json.NewDecoder(bytes.NewReader([]byte(text)))
	dec.UseNumber()
	var m map[string]any
	err := dec.Decode(&m)
	return m, err
}

package c02lib

import (
	"fmt"
	"strconv"
	"strings"

	"github.com/vektah/gqlparser/v2/ast"
)

// Val is an abstract input value that can be written as a GraphQL literal or as JSON.
type Val struct {
	K      string // "absent" "null" "bool" "int" "float" "string" "enum" "list" "object" "var"
	Raw    string // number token / string content / enum name / bool text / variable name
	Items  []Val
	Fields []FVal
}

type FVal struct {
	Name string
	V    Val
}

func vInt(s string) Val { return Val{K: "int", Raw: s} }
func vStr(s string) Val { return Val{K: "string", Raw: s} }
func vList(items ...Val) Val {
	return Val{K: "list", Items: items}
}
func vObj(f ...FVal) Val { return Val{K: "object", Fields: f} }

var (
	vAbsent = Val{K: "absent"}
	vNull   = Val{K: "null"}
)

// Literal renders v as GraphQL query text.
func (v Val) Literal() string {
	switch v.K {
	case "null":
		return "null"
	case "bool", "int", "float", "enum":
		return v.Raw
	case "string":
		return strconv.Quote(v.Raw)
	case "var":
		return "$" + v.Raw
	case "list":
		parts := make([]string, len(v.Items))
		for i, e := range v.Items {
			parts[i] = e.Literal()
		}
		return "[" + strings.Join(parts, ", ") + "]"
	case "object":
		parts := make([]string, len(v.Fields))
		for i, f := range v.Fields {
			parts[i] = f.Name + ": " + f.V.Literal()
		}
		return "{" + strings.Join(parts, ", ") + "}"
	}
	panic("Literal of " + v.K)
}

// JSON renders v as JSON text (enum names are JSON strings).
func (v Val) JSON() string {
	switch v.K {
	case "null":
		return "null"
	case "bool", "int", "float":
		return v.Raw
	case "string", "enum":
		return strconv.Quote(v.Raw)
	case "list":
		parts := make([]string, len(v.Items))
		for i, e := range v.Items {
			parts[i] = e.JSON()
		}
		return "[" + strings.Join(parts, ",") + "]"
	case "object":
		parts := make([]string, len(v.Fields))
		for i, f := range v.Fields {
			parts[i] = strconv.Quote(f.Name) + ":" + f.V.JSON()
		}
		return "{" + strings.Join(parts, ",") + "}"
	}
	panic("JSON of " + v.K)
}

// LVal is a labelled alphabet element; Class names the value class used in signatures.
type LVal struct {
	Label string
	Class string
	V     Val
}

// Step descends from an argument into its value: into a field of an input object, into
// element 0 of a list written as a list, or into the single value that list coercion wraps.
type Step struct {
	Field  string
	Elem   bool
	Single bool
}

func (s Step) String() string {
	switch {
	case s.Elem:
		return "[0]"
	case s.Single:
		return "(single)"
	}
	return "." + s.Field
}

// Position is one place a value can be supplied.
type Position struct {
	// Parent: for a field of an object type reached through an argument-less Query field
	// (box { span(...) }), that Query field's name; "" for Query fields
	Parent string
	Field  *ast.FieldDefinition
	Arg    *ast.ArgumentDefinition
	Steps  []Step
	Type   *ast.Type // type at the position
	// HasDefault: the position (argument or input field) declares a default value
	HasDefault bool
}

func (p Position) String() string {
	s := p.Field.Name + "(" + p.Arg.Name + ")"
	if p.Parent != "" {
		s = p.Parent + "." + s
	}
	for _, st := range p.Steps {
		s += st.String()
	}
	return s
}

// Case is one request.
type Case struct {
	Pos   string `json:"pos"`
	Value string `json:"value"`
	Mode  string `json:"mode"`
	Query string `json:"query"`
	// Vars is the request's `variables` carrier exactly as sent: "" = the key / URL
	// parameter is absent, otherwise the JSON text (null, {}, {"zz":1}, {"v":...})
	Vars string `json:"variables,omitempty"`
	// Transport: "" = POST (application/json body), "GET" = query-string parameters
	Transport string `json:"transport,omitempty"`
	// classification for signatures
	PosType string `json:"pos_type"`
	Class   string `json:"class"`
}

// Gen enumerates the request space.
type Gen struct {
	Schema   *ast.Schema
	MaxSteps int
}

// Positions lists every position reachable from every argument of every Query field with
// at most MaxSteps descents.
func (g *Gen) Positions() []Position {
	var out []Position
	for _, fd := range g.Schema.Query.Fields {
		if strings.HasPrefix(fd.Name, "__") {
			continue
		}
		for _, ad := range fd.Arguments {
			g.descend(&out, Position{Field: fd, Arg: ad, Type: ad.Type, HasDefault: ad.DefaultValue != nil})
		}
		// fields of an object returned by an argument-less Query field: their arguments are
		// received by bound model methods
		if obj := g.Schema.Types[fd.Type.Name()]; len(fd.Arguments) == 0 && obj != nil && obj.Kind == ast.Object {
			for _, mf := range obj.Fields {
				for _, ad := range mf.Arguments {
					g.descend(&out, Position{Parent: fd.Name, Field: mf, Arg: ad, Type: ad.Type, HasDefault: ad.DefaultValue != nil})
				}
			}
		}
	}
	return out
}

func (g *Gen) descend(out *[]Position, p Position) {
	*out = append(*out, p)
	max := g.MaxSteps
	// the defaults probe (Query.def*): its point is the omitted siblings, not deep descent
	switch {
	case p.Field.Name == "defIn" || p.Field.Name == "defIns" || p.Field.Name == "defNull":
		max = 1
	case strings.HasPrefix(p.Field.Name, "def"):
		max = 0
	}
	if len(p.Steps) >= max {
		return
	}
	with := func(s Step, t *ast.Type, def bool) Position {
		steps := append(append([]Step(nil), p.Steps...), s)
		return Position{Parent: p.Parent, Field: p.Field, Arg: p.Arg, Steps: steps, Type: t, HasDefault: def}
	}
	if p.Type.Elem != nil {
		g.descend(out, with(Step{Elem: true}, p.Type.Elem, false))
		if g.namedKind(p.Type.Elem) == ast.InputObject {
			// object supplied directly where a list of objects is expected
			g.descend(out, with(Step{Single: true}, p.Type.Elem, false))
		}
		return
	}
	def := g.Schema.Types[p.Type.NamedType]
	if def.Kind == ast.InputObject {
		for _, f := range def.Fields {
			g.descend(out, with(Step{Field: f.Name}, f.Type, f.DefaultValue != nil))
		}
	}
}

func (g *Gen) namedKind(t *ast.Type) ast.DefinitionKind {
	if t.Elem != nil {
		return ""
	}
	return g.Schema.Types[t.NamedType].Kind
}

// Good returns a simple valid value of type t (variant 0 or 1 give different values).
func (g *Gen) Good(t *ast.Type, variant int) Val {
	if t.Elem != nil {
		return vList(g.Good(t.Elem, variant))
	}
	def := g.Schema.Types[t.NamedType]
	switch def.Kind {
	case ast.Enum:
		return Val{K: "enum", Raw: def.EnumValues[variant%len(def.EnumValues)].Name}
	case ast.InputObject:
		return g.minimalObject(def, 0)
	}
	switch def.Name {
	case "Int", "IntID", "UintID", "I32", "I64", "U", "U32", "U64":
		return vInt(strconv.Itoa(11 + variant))
	case "Float", "F":
		return Val{K: "float", Raw: strconv.Itoa(3+variant) + ".25"}
	case "ID":
		// a value that is valid for every Go binding of ID (string, int, uint)
		return vStr(strconv.Itoa(21 + variant))
	case "String", "Lit":
		return vStr("g" + strconv.Itoa(variant))
	case "Boolean":
		return Val{K: "bool", Raw: strconv.FormatBool(variant == 0)}
	}
	panic("Good: " + def.Name)
}

// minimalObject is the smallest valid value of an input object: required fields only.
func (g *Gen) minimalObject(def *ast.Definition, depth int) Val {
	var fs []FVal
	for _, f := range def.Fields {
		if f.Type.NonNull && f.DefaultValue == nil {
			fs = append(fs, FVal{f.Name, g.Good(f.Type, 0)})
		}
	}
	return vObj(fs...)
}

// Wrap builds the argument value that carries x at the position (vAbsent: the position is
// omitted). ok=false: the combination is not expressible (absent list element).
func (g *Gen) Wrap(t *ast.Type, steps []Step, x Val) (Val, bool) {
	if len(steps) == 0 {
		return x, true
	}
	s := steps[0]
	switch {
	case s.Elem:
		inner, ok := g.Wrap(t.Elem, steps[1:], x)
		if !ok || inner.K == "absent" {
			return Val{}, false
		}
		return vList(inner), true
	case s.Single:
		inner, ok := g.Wrap(t.Elem, steps[1:], x)
		if !ok || inner.K == "absent" {
			return Val{}, false
		}
		return inner, true
	}
	def := g.Schema.Types[t.NamedType]
	fd := def.Fields.ForName(s.Field)
	inner, ok := g.Wrap(fd.Type, steps[1:], x)
	if !ok {
		return Val{}, false
	}
	var fs []FVal
	for _, f := range def.Fields {
		if f.Name == s.Field {
			if inner.K != "absent" {
				fs = append(fs, FVal{f.Name, inner})
			}
			continue
		}
		if f.Type.NonNull && f.DefaultValue == nil {
			fs = append(fs, FVal{f.Name, g.Good(f.Type, 0)})
		}
	}
	return vObj(fs...), true
}

// scalarAlphabet is the fixed part of the design's JSON value alphabet, simplest first.
func scalarAlphabet() []LVal {
	num := func(s, class string) LVal {
		k := "int"
		if strings.ContainsAny(s, ".eE") {
			k = "float"
		}
		return LVal{s, class, Val{K: k, Raw: s}}
	}
	return []LVal{
		{"absent", "absent", vAbsent},
		{"null", "null", vNull},
		{"true", "bool", Val{K: "bool", Raw: "true"}},
		num("0", "integer"),
		num("-1", "negative-integer"),
		num("1", "integer"),
		num("2147483647", "integer"),
		num("-2147483648", "negative-integer"),
		num("2147483648", "integer-beyond-int32"),
		num("-2147483649", "integer-beyond-int32"),
		num("9223372036854775807", "integer-beyond-int32"),
		num("9223372036854775808", "integer-beyond-int64"),
		num("-9223372036854775808", "integer-beyond-int32"),
		num("-9223372036854775809", "integer-beyond-int64"),
		num("1.0", "integral-float"),
		num("1.5", "float"),
		num("1e3", "integral-float"),
		{`"1"`, "integer-string", vStr("1")},
		{`"-1"`, "negative-integer-string", vStr("-1")},
		{`"1.5"`, "float-string", vStr("1.5")},
		{`"abc"`, "string", vStr("abc")},
		{`""`, "empty-string", vStr("")},
		{`"true"`, "string", vStr("true")},
		{"RED", "enum-name", Val{K: "enum", Raw: "RED"}},
		{"red", "wrong-case-enum-name", Val{K: "enum", Raw: "red"}},
		{`"RED"`, "enum-name-string", vStr("RED")},
	}
}

// numericExtras: the width boundaries (32 and 64 bit, signed and unsigned) and their
// neighbours that the fixed alphabet lacks, plus every boundary as a numeric STRING, plus
// non-finite float spellings. Supplied only to positions whose (innermost) type is numeric.
func numericExtras() []LVal {
	var out []LVal
	for _, n := range []string{"4294967295", "4294967296", "18446744073709551615", "18446744073709551616"} {
		out = append(out, LVal{n, "integer-beyond-int32", vInt(n)})
	}
	out[2].Class, out[3].Class = "integer-beyond-int64", "integer-beyond-int64"
	for _, n := range []string{"0", "2147483647", "2147483648", "-2147483648", "-2147483649", "4294967295", "4294967296",
		"9223372036854775807", "9223372036854775808", "-9223372036854775808", "-9223372036854775809",
		"18446744073709551615", "18446744073709551616"} {
		out = append(out, LVal{strconv.Quote(n), "integer-string", vStr(n)})
	}
	for _, n := range []string{"1e3", "1.0", "NaN", "Infinity", "-inf"} {
		out = append(out, LVal{strconv.Quote(n), "float-string", vStr(n)})
	}
	return out
}

func (g *Gen) numeric(t *ast.Type) bool {
	for t.Elem != nil {
		t = t.Elem
	}
	switch t.NamedType {
	case "Int", "Float", "ID", "IntID", "UintID", "I32", "I64", "U", "U32", "U64", "F":
		return true
	}
	return false
}

// Alphabet is the value alphabet for a position of type t: the fixed scalars plus the
// type-dependent composites [], [v], [v,null], {}, {known:v}, {unknown:v}.
func (g *Gen) Alphabet(t *ast.Type) []LVal {
	out := scalarAlphabet()
	add := func(label, class string, v Val) { out = append(out, LVal{label, class, v}) }
	if g.numeric(t) {
		out = append(out, numericExtras()...)
	}
	add("[]", "empty-list", vList())
	if t.Elem != nil {
		good := g.Good(t.Elem, 0)
		add("[good]", "list", vList(good))
		add("[good,good2]", "list", vList(good, g.Good(t.Elem, 1)))
		add("[good,null]", "list-with-null", vList(good, vNull))
		add("[null]", "list-with-null", vList(vNull))
		// every fixed scalar as the single element
		for _, e := range scalarAlphabet() {
			if e.V.K == "absent" || e.V.K == "null" {
				continue
			}
			add("["+e.Label+"]", "list-of-"+e.Class, vList(e.V))
		}
		if g.numeric(t) {
			for _, e := range numericExtras() {
				add("["+e.Label+"]", "list-of-"+e.Class, vList(e.V))
			}
		}
		add("[[good]]", "nested-list", vList(vList(good)))
		add("[[]]", "nested-list", vList(vList()))
		add("[good,[good]]", "nested-list", vList(good, vList(good)))
	} else {
		add("[1]", "list", vList(vInt("1")))
		add("[1,null]", "list-with-null", vList(vInt("1"), vNull))
		add(`["g0"]`, "list", vList(vStr("g0")))
	}
	add("{}", "empty-object", vObj())
	if t.Elem == nil && g.Schema.Types[t.NamedType].Kind == ast.InputObject {
		def := g.Schema.Types[t.NamedType]
		min := g.minimalObject(def, 0)
		add("{required}", "object", min)
		// first optional field with a good and with a bad value
		for _, f := range def.Fields {
			if f.Type.NonNull {
				continue
			}
			withF := func(v Val) Val {
				return vObj(append(append([]FVal(nil), min.Fields...), FVal{f.Name, v})...)
			}
			add("{required,"+f.Name+":good}", "object", withF(g.Good(f.Type, 0)))
			add("{required,"+f.Name+":null}", "object", withF(vNull))
			add("{required,"+f.Name+":{}}", "object-with-bad-field", withF(vObj()))
			break
		}
		add("{required,unknown:1}", "object-with-unknown-field", vObj(append(append([]FVal(nil), min.Fields...), FVal{"zzz", vInt("1")})...))
		add("{unknown:1}", "object-with-unknown-field", vObj(FVal{"zzz", vInt("1")}))
		if len(min.Fields) > 0 {
			// required field given as null
			nulled := vObj(FVal{min.Fields[0].Name, vNull})
			add("{required:null}", "object-with-null-required", nulled)
		}
	} else {
		add("{x:1}", "object", vObj(FVal{"x", vInt("1")}))
	}
	return out
}

// field renders the selection for position p with argText as the value of p.Arg ("" = the
// argument is omitted). The field's other arguments are supplied only when they are
// required (non-null without default), with a simple valid value.
func (g *Gen) field(p Position, argText string) string {
	var parts []string
	for _, ad := range p.Field.Arguments {
		switch {
		case ad == p.Arg:
			if argText != "" {
				parts = append(parts, ad.Name+": "+argText)
			}
		case ad.Type.NonNull && ad.DefaultValue == nil:
			parts = append(parts, ad.Name+": "+g.Good(ad.Type, 0).Literal())
		}
	}
	sel := p.Field.Name
	if len(parts) > 0 {
		sel += "(" + strings.Join(parts, ", ") + ")"
	}
	if p.Parent != "" {
		sel = p.Parent + " { " + sel + " }"
	}
	return sel
}

// containerOf names what directly contains the position (for signatures).
func containerOf(p Position) string {
	if len(p.Steps) == 0 {
		return "argument"
	}
	s := p.Steps[len(p.Steps)-1]
	switch {
	case s.Elem:
		return "list-element"
	case s.Single:
		return "single-for-list"
	}
	return "input-field"
}

// Cases enumerates every request for position p.
func (g *Gen) Cases(p Position, reduced bool) []Case {
	var out []Case
	alpha := g.Alphabet(p.Type)
	posType := p.Type.String() + "@" + containerOf(p)
	if p.HasDefault {
		posType += "+default"
	}
	emit := func(mode string, lv LVal, q, vars string) {
		if vars != "{}" {
			out = append(out, Case{Pos: p.String(), Value: lv.Label, Mode: mode, Query: q, Vars: vars, PosType: posType, Class: lv.Class})
			return
		}
		// the variable is not provided: every carrier that says so — no `variables` key at
		// all, null, an empty object, an object that holds only some other key
		for _, cr := range [][2]string{{"{}", "empty-object"}, {"", "no-variables-key"}, {"null", "variables-null"}, {`{"zz":1}`, "other-keys-only"}} {
			out = append(out, Case{Pos: p.String(), Value: lv.Label + " [variables: " + cr[1] + "]", Mode: mode, Query: q, Vars: cr[0], PosType: posType, Class: lv.Class + "(" + cr[1] + ")"})
		}
	}
	// small alphabet for the default-value / non-null-variable variants
	small := []LVal{alpha[0], alpha[1], {"good", "valid", g.Good(p.Type, 1)}, {`"abc"`, "string", vStr("abc")}, {"1.5", "float", Val{K: "float", Raw: "1.5"}}, {"{}", "empty-object", vObj()}}

	// positions under the def* fields (defaults probe) get the small alphabet: what matters
	// there is that every OTHER field / argument is omitted and must arrive as its default
	tiny := strings.HasPrefix(p.Field.Name, "def")
	if tiny {
		alpha = small
	}
	nestedVarOK := len(p.Steps) > 0 && !p.Steps[len(p.Steps)-1].Single
	for _, lv := range alpha {
		// (a) literal
		if av, ok := g.Wrap(p.Arg.Type, p.Steps, lv.V); ok {
			txt := ""
			if av.K != "absent" {
				txt = av.Literal()
			}
			emit("literal", lv, "{ "+g.field(p, txt)+" }", "")
			// (b) the whole argument through a variable
			vars := "{}"
			if av.K != "absent" {
				vars = `{"v":` + av.JSON() + `}`
			}
			emit("variable", lv, "query($v: "+p.Arg.Type.String()+") { "+g.field(p, "$v")+" }", vars)
		}
		// (c) a variable at the position inside a literal argument (a variable of the element
		// type cannot stand where the list is expected, so not for the single-for-list step)
		if nestedVarOK {
			if av, ok := g.Wrap(p.Arg.Type, p.Steps, Val{K: "var", Raw: "v"}); ok {
				vars := "{}"
				if lv.V.K != "absent" {
					vars = `{"v":` + lv.V.JSON() + `}`
				}
				emit("nested-variable", lv, "query($v: "+p.Type.String()+") { "+g.field(p, av.Literal())+" }", vars)
			}
		}
	}
	if reduced || tiny {
		return out
	}
	// variable default values `$v: T = D`, D in every literal form of the kind: with the
	// variable not provided (every carrier) and explicitly null
	{
		for _, form := range g.DefaultForms(p.Type) {
			for _, lv := range small[:2] {
				vars := "{}"
				if lv.V.K != "absent" {
					vars = `{"v":` + lv.V.JSON() + `}`
				}
				flv := LVal{lv.Label + " [default " + form + "]", lv.Class, lv.V}
				if len(p.Steps) == 0 {
					emit("variable-default-form", flv, "query($v: "+p.Arg.Type.String()+" = "+form+") { "+g.field(p, "$v")+" }", vars)
				} else if nestedVarOK {
					if av, ok := g.Wrap(p.Arg.Type, p.Steps, Val{K: "var", Raw: "v"}); ok {
						emit("nested-variable-default-form", flv, "query($v: "+p.Type.String()+" = "+form+") { "+g.field(p, av.Literal())+" }", vars)
					}
				}
			}
		}
	}
	dflt := g.Good(p.Type, 0)
	nullable := *p.Type
	nullable.NonNull = false
	for _, lv := range small {
		if len(p.Steps) == 0 {
			vars := "{}"
			if lv.V.K != "absent" {
				vars = `{"v":` + lv.V.JSON() + `}`
			}
			emit("variable-with-default", lv, "query($v: "+p.Arg.Type.String()+" = "+dflt.Literal()+") { "+g.field(p, "$v")+" }", vars)
			if !p.Arg.Type.NonNull {
				nn := *p.Arg.Type
				nn.NonNull = true
				emit("nonnull-variable", lv, "query($v: "+nn.String()+") { "+g.field(p, "$v")+" }", vars)
			} else if p.HasDefault {
				// a nullable variable is allowed at a non-null argument that has a default
				emit("nullable-variable-at-defaulted-nonnull", lv, "query($v: "+nullable.String()+") { "+g.field(p, "$v")+" }", vars)
			}
			continue
		}
		if !nestedVarOK {
			continue
		}
		av, ok := g.Wrap(p.Arg.Type, p.Steps, Val{K: "var", Raw: "v"})
		if !ok {
			continue
		}
		vars := "{}"
		if lv.V.K != "absent" {
			vars = `{"v":` + lv.V.JSON() + `}`
		}
		emit("nested-variable-with-default", lv, "query($v: "+p.Type.String()+" = "+dflt.Literal()+") { "+g.field(p, av.Literal())+" }", vars)
		if p.Type.NonNull && p.HasDefault {
			// a nullable variable is allowed at a non-null position that has a default
			emit("nested-nullable-variable-at-defaulted-nonnull", lv, "query($v: "+nullable.String()+") { "+g.field(p, av.Literal())+" }", vars)
		}
		if !p.Type.NonNull {
			nn := *p.Type
			nn.NonNull = true
			emit("nested-nonnull-variable", lv, "query($v: "+nn.String()+") { "+g.field(p, av.Literal())+" }", vars)
		}
	}
	return out
}

// DefaultForms lists default-value literals for type t in every form the grammar allows
// for the kind: Float as integer / negative / exponent / fraction literal, ID as integer
// and as string, lists empty / mixed forms / with null / as a single value (list coercion
// inside a default), input objects minimal and with an optional field, and null.
func (g *Gen) DefaultForms(t *ast.Type) []string {
	var out []string
	if t.Elem != nil {
		ef := g.DefaultForms(t.Elem)
		var plain []string
		for _, f := range ef {
			if f != "null" {
				plain = append(plain, f)
			}
		}
		out = append(out, "[]", "["+strings.Join(plain, ", ")+"]", plain[0])
		if !t.Elem.NonNull {
			out = append(out, "["+plain[0]+", null]")
		}
	} else {
		def := g.Schema.Types[t.NamedType]
		switch {
		case def.Kind == ast.Enum:
			for _, ev := range def.EnumValues {
				out = append(out, ev.Name)
			}
		case def.Kind == ast.InputObject:
			min := g.minimalObject(def, 0)
			out = append(out, min.Literal())
			for _, f := range def.Fields {
				if !f.Type.NonNull {
					ff := g.DefaultForms(f.Type)
					out = append(out, vObj(append(append([]FVal(nil), min.Fields...), FVal{f.Name, Val{K: "enum", Raw: ff[0]}})...).Literal())
					break
				}
			}
		default:
			switch def.Name {
			case "Float", "F":
				out = append(out, "0", "2", "-3", "1e3", "2.5")
			case "Int", "I64":
				out = append(out, "0", "-7", "2147483647")
			case "I32":
				out = append(out, "0", "-2147483648")
			case "U", "U32", "U64":
				out = append(out, "0", "7")
			case "IntID":
				out = append(out, "3", `"4"`, "-5")
			case "UintID":
				out = append(out, "0", `"6"`)
			case "ID":
				out = append(out, "5", `"abc"`, `""`)
			case "Boolean":
				out = append(out, "true", "false")
			case "String":
				out = append(out, `""`, `"x"`)
			case "Lit":
				out = append(out, "1", "1.5", `"s"`, "true", "RED")
			default:
				panic("DefaultForms: " + def.Name)
			}
		}
	}
	if !t.NonNull {
		out = append(out, "null")
	}
	return out
}

// Corpus: hand-written requests that combine several arguments / aliases.
func Corpus() []Case {
	mk := func(q, vars string) Case {
		return Case{Pos: "corpus", Value: "-", Mode: "corpus", Query: q, Vars: vars, PosType: "corpus", Class: "corpus"}
	}
	return []Case{
		mk(`{ multi(a: 1, b: "x", c: [1, 2], d: {req: 3}) }`, ""),
		mk(`{ multi(a: 1, c: 2, d: {req: 3, deep: {zs: 4}}) }`, ""),
		mk(`{ m: multi(d: {req: 3, n: null, d: null}) }`, ""),
		mk(`query($a: Int, $b: String, $c: [Int], $d: Inner) { multi(a: $a, b: $b, c: $c, d: $d) }`, `{"a":1,"b":"x","c":[1,null],"d":{"req":3}}`),
		mk(`query($a: Int = 4, $b: String = "vb", $c: [Int] = [7]) { multi(a: $a, b: $b, c: $c) }`, `{}`),
		mk(`query($a: Int = 4, $b: String = "vb", $c: [Int] = [7]) { multi(a: $a, b: $b, c: $c) }`, `{"a":null,"b":null,"c":null}`),
		mk(`query($r: Int!, $z: Int) { multi(d: {req: $r, deep: {z: $z, zs: [$r]}}) }`, `{"r":5,"z":6}`),
		mk(`query($r: Int!, $z: Int) { multi(d: {req: $r, deep: {z: $z, zs: [$r]}}) }`, `{"r":5}`),
		mk(`query($r: Int!) { multi(c: [$r, 2], d: {req: $r}) }`, `{"r":"x"}`),
		mk(`query($o: Obj) { obj(x: $o) }`, `{"o":{"iReq":1,"inner":{"req":2,"deep":{"zs":3}},"inners":{"req":4},"matrix":5}}`),
		mk(`{ obj(x: {iReq: 1, inner: {req: 2, deep: {zs: 3}}, inners: {req: 4}, matrix: 5}) }`, ""),
		mk(`query($m: MapIn) { mapped(x: $m) }`, `{"m":{"iReq":1,"i":null,"m":{"iReq":2,"ints":3}}}`),
		mk(`{ mapped(x: {iReq: 1, i: null, m: {iReq: 2, ints: 3}}) }`, ""),
		mk(`{ omit(x: {o: null, os: null, oInner: null}) }`, ""),
		mk(`{ omit(x: {o: 1, os: 2, oInner: {req: 1}, oStr: "s"}) }`, ""),
		mk(`{ omit(x: {}) }`, ""),
		// hand-written input models with pointer-to-pointer fields: omitted / null / value
		mk(`{ ptrptr(x: {}) }`, ""),
		mk(`{ ptrptr(x: {inner: null, child: null, inners: null, nums: null}) }`, ""),
		mk(`{ ptrptr(x: {inner: {key: "k"}, child: {inner: null, child: {inner: {n: 1}}}, inners: [null, {n: 2}], nums: [1, null]}) }`, ""),
		mk(`query($v: PPOuter) { ptrptr(x: $v) }`, `{"v":{"inner":null,"child":{"inner":null,"inners":[null,{}]}}}`),
		mk(`query($i: PPInner, $c: PPOuter) { ptrptr(x: {inner: $i, child: $c}) }`, `{"i":null,"c":null}`),
		mk(`query($i: PPInner, $c: PPOuter) { ptrptr(x: {inner: $i, child: $c}) }`, `{"i":{"n":3},"c":{"inner":null}}`),
		mk(`{ ptrptrs(x: {inner: null}) }`, ""),
		mk(`{ ptrptrs(x: [{inner: null}, {inner: {}}, {}]) }`, ""),
		// defaults probe: everything omitted, so every default of every form must arrive
		mk(`{ defArgs }`, ""),
		mk(`{ defIn(x: {}) }`, ""),
		mk(`{ defInDefault }`, ""),
		mk(`{ defNull(x: {}) }`, ""),
		mk(`query($v: NullDef) { defNull(x: $v) }`, `{"v":{}}`),
		mk(`{ defIns(x: {}) }`, ""),
		mk(`query($v: DefIn = {}) { defIn(x: $v) }`, ""),
		mk(`query($v: DefIn) { defIn(x: $v) }`, `{"v":{}}`),
		mk(`query($v: DefIn) { defIn(x: $v) }`, `{"v":{"nested":{},"nesteds":[{}, {"f":null}]}}`),
		mk(`{ defIn(x: {nested: {}, nesteds: [{}, {f: null}], fInt0: null, fl: null}) }`, ""),
		mk(`{ defArgs(fInt0: null, fl: null, nested: {}, flSingle: 4) }`, ""),
		// operations that declare variables, sent without any variables carrier
		mk(`query($a: Int = 4, $b: String = "vb", $c: [Int] = [7]) { multi(a: $a, b: $b, c: $c) }`, ``),
		mk(`query($a: Int = 4, $b: String = "vb", $c: [Int] = [7]) { multi(a: $a, b: $b, c: $c) }`, `null`),
		mk(`query($x: Int = 9) { intDef(x: $x) }`, ``),
		mk(`query($x: Int) { intDef(x: $x) }`, ``),
		mk(`query($x: Int!) { intReq(x: $x) }`, ``),
		mk(`query($x: Int! = 7) { intReq(x: $x) }`, ``),
		mk(`query($x: Int = 0, $s: String = "", $l: [Int] = []) { multi(a: $x, b: $s, c: $l) }`, ``),
		mk(`query($b: Boolean = false) { boolDef(x: $b) }`, ``),
		// bound model methods whose Go parameter order differs from the schema order
		mk(`{ box { span(from: 1, to: 9) } }`, ""),
		mk(`{ box { spanDefault } }`, ""),
		mk(`{ box { spanDefault(to: 7) } }`, ""),
		mk(`{ box { label(prefix: "pre", suffix: "suf") } }`, ""),
		mk(`{ box { label(prefix: "pre") } }`, ""),
		mk(`{ box { label(suffix: null) } }`, ""),
		mk(`{ box { tri(a: 1, b: 2) } }`, ""),
		mk(`{ box { tri(c: null, b: 2) } }`, ""),
		mk(`{ box { move(from: {x: 1}, to: {x: 7, y: 8}, steps: 4) } }`, ""),
		mk(`{ box { move(to: {x: 7, y: null}, steps: [1, null], scale: null) } }`, ""),
		mk(`query($f: PointIn, $t: PointIn, $s: [Int], $k: Int) { box { move(from: $f, to: $t, steps: $s, scale: $k) } }`, `{"f":{"x":1},"t":{"x":7,"y":8},"s":[4,5]}`),
		mk(`{ box { lists(a: [1, 2]) } }`, ""),
		mk(`{ box { lists(a: 5, b: [6, 7]) } }`, ""),
		mk(`{ box { ratio(num: 1.5) } }`, ""),
		mk(`{ box { ratio(num: 3, den: 4) } }`, ""),
		mk(`{ box { scale(by: 2.5, n: 3) } }`, ""),
		mk(`query($a: Int!, $b: Int!) { b2: box { s: span(to: $b, from: $a) } }`, `{"a":1,"b":9}`),
	}
}

// All enumerates the whole request space for a tier.
func (g *Gen) All() []Case {
	var out []Case
	out = append(out, Corpus()...)
	for _, p := range g.Positions() {
		out = append(out, g.Cases(p, false)...)
	}
	// the same requests over GET where the variables carrier matters most: the variable is
	// absent or null, or the operation declares a variable default
	n := len(out)
	for i := 0; i < n; i++ {
		c := out[i]
		if !strings.Contains(c.Query, "$v") && c.Mode != "corpus" {
			continue
		}
		if c.Mode == "corpus" || strings.HasPrefix(c.Class, "absent") || c.Class == "null" || strings.Contains(c.Mode, "default") || strings.Contains(c.Mode, "nonnull-variable") {
			c.Transport = "GET"
			out = append(out, c)
		}
	}
	// distinct by request text
	seen := map[string]bool{}
	uniq := out[:0]
	for _, c := range out {
		k := c.Transport + "\x00" + c.Query + "\x00" + c.Vars
		if seen[k] {
			continue
		}
		seen[k] = true
		uniq = append(uniq, c)
	}
	return uniq
}

func (c Case) String() string {
	tr := c.Transport
	if tr == "" {
		tr = "POST"
	}
	vars := c.Vars
	if vars == "" {
		vars = "<key absent>"
	}
	return fmt.Sprintf("%s <- %s (%s, %s): %s  variables=%s", c.Pos, c.Value, c.Mode, tr, c.Query, vars)
}

package smoke

import (
	"fmt"
	"testing"

	"verif/explore"
	"verif/vrt"
	"verif/vrt/vatomic"
	"verif/vrt/vsync"
)

// lost update: two threads do x = x+1 with a yield in between; final x in {1,2}
type lostUpdate struct {
	x  int
	wg vsync.WaitGroup
}

func (l *lostUpdate) Body() {
	for i := 0; i < 2; i++ {
		l.wg.Add(1)
		vrt.Go("w", func() {
			defer l.wg.Done()
			v := l.x
			vrt.Yield("between")
			l.x = v + 1
		})
	}
	l.wg.Wait()
}
func (l *lostUpdate) Obs() string { return fmt.Sprint(l.x) }
func (l *lostUpdate) Check(x *explore.Exec) (string, string) {
	if x.Out.Kind != "quiescent" {
		return "not-quiescent", x.Out.Kind
	}
	if l.x != 2 {
		return "lost-update", fmt.Sprintf("x=%d", l.x)
	}
	return "", ""
}

func TestLostUpdate(t *testing.T) {
	for b := 0; b <= 2; b++ {
		st := explore.ExploreScenario(&explore.Scenario{Name: "lu", New: func() explore.Instance { return &lostUpdate{} }}, explore.Config{Bound: b, MaxSteps: 1000})
		t.Logf("bound %d: execs=%d outcomes=%d found=%d broken=%q", b, st.Execs, st.NOutcomes, len(st.Found), st.Broken)
		if st.Broken != "" {
			t.Fatal(st.Broken)
		}
		if b >= 1 && len(st.Found) == 0 {
			t.Fatal("lost update not found")
		}
		if b == 0 && len(st.Found) != 0 {
			t.Fatal("found at bound 0")
		}
	}
}

// rendezvous + deadlock: producer sends 2, consumer receives 1 then exits -> producer blocked
type chanDead struct {
	ch  chan int
	got []int
}

func (c *chanDead) Body() {
	c.ch = make(chan int)
	vrt.Go("prod", func() { vrt.Send(c.ch, 1); vrt.Send(c.ch, 2) })
	c.got = append(c.got, vrt.Recv(c.ch))
}
func (c *chanDead) Obs() string { return fmt.Sprint(c.got) }
func (c *chanDead) Check(x *explore.Exec) (string, string) {
	if x.Out.Kind == "blocked" {
		return "blocked", fmt.Sprint(x.Out.Blocked)
	}
	return "", ""
}

func TestChanDeadlock(t *testing.T) {
	st := explore.ExploreScenario(&explore.Scenario{Name: "cd", New: func() explore.Instance { return &chanDead{} }}, explore.Config{Bound: 2, MaxSteps: 1000})
	t.Logf("execs=%d found=%v broken=%q", st.Execs, st.Found, st.Broken)
	if len(st.Found) != 1 {
		t.Fatal("expected blocked producer")
	}
}

// select with default and buffered chans, mutex, atomics: must be race-free & quiescent
type mix struct {
	mu  vsync.Mutex
	n   int32
	buf chan int
	sum int
}

func (m *mix) Body() {
	m.buf = make(chan int, 2)
	var wg vsync.WaitGroup
	for i := 1; i <= 3; i++ {
		i := i
		wg.Add(1)
		vrt.Go("w", func() {
			defer wg.Done()
			m.mu.Lock()
			m.sum += i
			m.mu.Unlock()
			vatomic.AddInt32(&m.n, 1)
			h := vrt.SendCase(m.buf, i)
			switch vrt.Select(true, h) {
			case 0:
			default:
			}
		})
	}
	wg.Wait()
	vrt.Close(m.buf)
	for {
		_, ok := vrt.Recv2(m.buf)
		if !ok {
			break
		}
	}
}
func (m *mix) Obs() string { return fmt.Sprint(m.sum, m.n) }
func (m *mix) Check(x *explore.Exec) (string, string) {
	if x.Out.Kind != "quiescent" || m.sum != 6 || m.n != 3 {
		return "bad", fmt.Sprint(x.Out, m.sum, m.n)
	}
	return "", ""
}

func TestMix(t *testing.T) {
	st := explore.ExploreScenario(&explore.Scenario{Name: "mix", New: func() explore.Instance { return &mix{} }}, explore.Config{Bound: 2, MaxSteps: 1000})
	t.Logf("execs=%d trans=%d outcomes=%d found=%v broken=%q", st.Execs, st.Transitions, st.NOutcomes, st.Found, st.Broken)
	if len(st.Found) != 0 || st.Broken != "" {
		t.Fatal("unexpected")
	}
}

// Package explore is the stateless depth-first explorer with deviation bounding
// (DESIGN.md section 3.3) that drives the controlled runtime, plus process-level
// sharding of scenarios and evidence merging.
package explore

import (
	"bufio"
	"crypto/sha256"
	"encoding/hex"
	"encoding/json"
	"fmt"
	"os"
	"os/exec"
	"runtime"
	"sort"
	"strconv"
	"strings"
	"sync"
	"time"

	"verif/common"
	"verif/vrt"
)

// Instance is one fresh copy of a scenario: new server objects, new logs.
type Instance interface {
	// Body runs as managed thread "0".
	Body()
	// Obs is the canonical observation of the finished execution (compared for
	// replay determinism and counted as distinct outcomes).
	Obs() string
	// Check is the oracle: it returns ("","") when the execution satisfies the property,
	// otherwise a signature (stable class of the failure) and a message.
	Check(x *Exec) (sig, msg string)
}

type Scenario struct {
	Name string
	// Bound overrides Config.Bound when non-nil (negative = unbounded).
	Bound *int
	// DefaultOnly runs only the default (non-preemptive, lowest-id-first) schedule: for
	// structural scenarios whose failure does not depend on the schedule. Reported as such.
	DefaultOnly bool
	New         func() Instance
	// Meta is copied into replay files and samples.
	Meta any
}

type Exec struct {
	Sched   *vrt.Sched
	Out     vrt.Outcome
	Choices []int
	Cost    int
}

type Config struct {
	Bound    int // maximum number of deviations (preemptions + environment events); <0 = unbounded
	MaxSteps int // horizon per execution
	MaxExecs int64
	Deadline time.Time
}

type Found struct {
	Scenario string   `json:"scenario"`
	Sig      string   `json:"sig"`
	Msg      string   `json:"msg"`
	Choices  []int    `json:"choices"`
	Cost     int      `json:"cost"`
	Trace    []string `json:"trace"`
	Obs      string   `json:"obs"`
	Meta     any      `json:"meta,omitempty"`
}

type Stats struct {
	Scenario    string         `json:"scenario"`
	Execs       int64          `json:"execs"`
	Transitions int64          `json:"transitions"`
	Outcomes    map[string]int `json:"-"`
	NOutcomes   int            `json:"distinct_outcomes"`
	Kinds       map[string]int `json:"kinds"`
	MaxCost     int            `json:"max_cost"`
	MaxSteps    int            `json:"max_steps"`
	Exhaustive  bool           `json:"exhaustive"`
	Bound       int            `json:"bound"`
	DefaultOnly bool           `json:"default_only,omitempty"`
	Switched    int64          `json:"with_context_switch"`
	Found       []Found        `json:"found,omitempty"`
	SampleTrace []string       `json:"sample_trace,omitempty"`
	Broken      string         `json:"broken,omitempty"`
}

type frame struct {
	prefix []int
	cost   int
	// expected descriptors of the prefix steps (replay determinism)
	expect []string
}

func traceStrings(tr []vrt.Step) []string {
	out := make([]string, len(tr))
	for i, st := range tr {
		out[i] = fmt.Sprintf("%s %s [%d/%d]", st.Thread, st.Desc, st.Chosen, st.NChoices)
	}
	return out
}

func stepKey(st vrt.Step) string {
	return st.Thread + "|" + stripAddr(st.Desc) + "|" + strconv.Itoa(st.NChoices)
}

// stripAddr removes pointer-derived parts of descriptions (they vary between runs).
func stripAddr(s string) string {
	var b strings.Builder
	for i := 0; i < len(s); i++ {
		if s[i] == '0' && i+1 < len(s) && s[i+1] == 'x' {
			j := i + 2
			for j < len(s) && strings.IndexByte("0123456789abcdef", s[j]) >= 0 {
				j++
			}
			b.WriteString("#")
			i = j - 1
			continue
		}
		b.WriteByte(s[i])
	}
	return b.String()
}

func runOnce(sc *Scenario, cfg Config, prefix []int) (Instance, *Exec) {
	// a trailing -1 records "every thread blocked, only environment events enabled, none
	// taken": it is where the execution ended, not a choice to replay
	for len(prefix) > 0 && prefix[len(prefix)-1] < 0 {
		prefix = prefix[:len(prefix)-1]
	}
	inst := sc.New()
	s, out := vrt.Run(prefix, cfg.MaxSteps, inst.Body)
	x := &Exec{Sched: s, Out: out, Cost: out.Cost}
	for _, st := range s.Trace {
		x.Choices = append(x.Choices, st.Chosen)
	}
	return inst, x
}

// ExploreScenario enumerates every execution of the scenario within the bound.
func ExploreScenario(sc *Scenario, cfg Config) Stats {
	bound := cfg.Bound
	if sc.Bound != nil {
		bound = *sc.Bound
	}
	st := Stats{Scenario: sc.Name, Outcomes: map[string]int{}, Kinds: map[string]int{}, Exhaustive: true, Bound: bound}
	sigSeen := map[string]bool{}
	stack := []frame{{}}
	first := true
	for len(stack) > 0 {
		if (cfg.MaxExecs > 0 && st.Execs >= cfg.MaxExecs) || (!cfg.Deadline.IsZero() && time.Now().After(cfg.Deadline)) {
			st.Exhaustive = false
			break
		}
		f := stack[len(stack)-1]
		stack = stack[:len(stack)-1]
		inst, x := runOnce(sc, cfg, f.prefix)
		if x.Out.Kind == "replay-divergence" {
			st.Broken = "nondeterministic replay: " + x.Sched.ReplayErr
			return st
		}
		tr := x.Sched.Trace
		for i := range f.expect {
			if i >= len(tr) || stepKey(tr[i]) != f.expect[i] {
				got := "<end>"
				if i < len(tr) {
					got = stepKey(tr[i])
				}
				st.Broken = fmt.Sprintf("nondeterministic replay in %s at step %d: expected %q got %q", sc.Name, i, f.expect[i], got)
				return st
			}
		}
		obs := inst.Obs()
		firstSig := ""
		if first {
			firstSig, _ = inst.Check(x)
		}
		if first && firstSig != "" {
			// the very first execution already violates the property: the violation is
			// confirmed by replay below; a replay-twice comparison of a violating execution
			// would only report the same thing as "nondeterminism" (e.g. when the code under
			// test leaks state into process-global variables)
			first = false
			st.SampleTrace = traceStrings(tr)
			if len(st.SampleTrace) > 40 {
				st.SampleTrace = st.SampleTrace[:40]
			}
		}
		if first {
			// self-check: the default schedule replayed must give the identical observation
			first = false
			inst2, x2 := runOnce(sc, cfg, x.Choices)
			if o2 := inst2.Obs(); o2 != obs || x2.Out.Kind != x.Out.Kind {
				st.Broken = fmt.Sprintf("replay-twice self-check failed in %s:\n first: %s\nsecond: %s", sc.Name, obs, o2)
				return st
			}
			st.SampleTrace = traceStrings(tr)
			if len(st.SampleTrace) > 40 {
				st.SampleTrace = st.SampleTrace[:40]
			}
		}
		st.Execs++
		st.Transitions += int64(len(tr))
		h := sha256.Sum256([]byte(obs + "|" + x.Out.Kind))
		st.Outcomes[hex.EncodeToString(h[:8])]++
		st.Kinds[x.Out.Kind]++
		if x.Out.Kind == "horizon" {
			st.Exhaustive = false
		}
		if x.Cost > st.MaxCost {
			st.MaxCost = x.Cost
		}
		if len(tr) > st.MaxSteps {
			st.MaxSteps = len(tr)
		}
		for i := 1; i < len(tr); i++ {
			if tr[i].Thread != tr[i-1].Thread {
				st.Switched++
				break
			}
		}
		if sig, msg := inst.Check(x); sig != "" {
			if !sigSeen[sig] {
				sigSeen[sig] = true
				// confirm: the same choices must fail the same way, twice more
				for k := 0; k < 2; k++ {
					i2, x2 := runOnce(sc, cfg, x.Choices)
					s2, _ := i2.Check(x2)
					if s2 != sig {
						st.Broken = fmt.Sprintf("violation %q in %s did not reproduce on replay (got %q)", sig, sc.Name, s2)
						return st
					}
				}
				st.Found = append(st.Found, Found{Scenario: sc.Name, Sig: sig, Msg: msg, Choices: x.Choices, Cost: x.Cost, Trace: traceStrings(tr), Obs: obs, Meta: sc.Meta})
			}
		}
		// children: alternatives at every point after the prefix
		expect := make([]string, len(tr))
		for i := range tr {
			expect[i] = stepKey(tr[i])
		}
		if sc.DefaultOnly {
			st.DefaultOnly = true
			break
		}
		// push in reverse so that earlier points / lower alternatives are explored first
		var kids []frame
		for i := len(f.prefix); i < len(tr); i++ {
			p := tr[i]
			for alt := 0; alt < p.NChoices; alt++ {
				if alt == p.Chosen {
					continue
				}
				c := f.cost + p.Costs[alt]
				if bound >= 0 && c > bound {
					continue
				}
				np := make([]int, i+1)
				copy(np, x.Choices[:i])
				np[i] = alt
				kids = append(kids, frame{prefix: np, cost: c, expect: expect[:i]})
			}
		}
		for i := len(kids) - 1; i >= 0; i-- {
			stack = append(stack, kids[i])
		}
	}
	st.NOutcomes = len(st.Outcomes)
	return st
}

// ---------------------------------------------------------------------------------
// Sharded driver

type Options struct {
	Prop      string
	Level     string // usually "model_checking"
	Cfg       func(tier string) Config
	Scenarios func(tier string) []*Scenario
	Workers   int
	Assume    []string
	Extra     func(c *common.Check, tier string, all []Stats) // add to evidence
	BudgetQ   time.Duration
	BudgetT   time.Duration
	// PassArgs are extra command-line arguments handed to worker processes.
	PassArgs []string
}

func argValue(name string) string {
	for i, a := range os.Args {
		if a == name && i+1 < len(os.Args) {
			return os.Args[i+1]
		}
	}
	return ""
}

// Main is the entry point of a scheduler-based check binary.
func Main(o Options) {
	tier := common.TierFromArgs()
	cfg := o.Cfg(tier)
	scs := o.Scenarios(tier)
	sort.SliceStable(scs, func(i, j int) bool { return scs[i].Name < scs[j].Name })
	budget := o.BudgetQ
	if tier == "thorough" {
		budget = o.BudgetT
	}
	if budget == 0 {
		budget = 150 * time.Second
		if tier == "thorough" {
			budget = 20 * time.Minute
		}
	}
	if b, _ := strconv.Atoi(argValue("--budget")); b > 0 {
		budget = time.Duration(b) * time.Second
	}
	if rp := common.ReplayArg(); rp != "" {
		replay(o, scs, cfg, rp)
		return
	}
	if fr := argValue("--free-run"); fr != "" {
		// auxiliary race pass: run every scenario body free-running (no scheduler) n times in
		// this (-race built) process; the race detector reports on stderr and sets exit code 66
		n, _ := strconv.Atoi(fr)
		runs := 0
		for _, sc := range scs {
			for i := 0; i < n; i++ {
				inst := sc.New()
				done := make(chan struct{})
				go func() {
					defer func() { recover(); close(done) }()
					inst.Body()
				}()
				select {
				case <-done:
					runs++
				case <-time.After(5 * time.Second):
					// free-running bodies that wait for scheduler-only events are skipped
				}
			}
		}
		fmt.Printf("FREE-RUN scenarios=%d completed_runs=%d\n", len(scs), runs)
		return
	}
	if w := argValue("--scenario"); w != "" {
		// "--scenario a" or "--scenario a-b" (inclusive range)
		var a, b int
		if n, _ := fmt.Sscanf(w, "%d-%d", &a, &b); n < 2 {
			a, _ = strconv.Atoi(w)
			b = a
		}
		dl, _ := strconv.ParseInt(argValue("--deadline"), 10, 64)
		if dl > 0 {
			cfg.Deadline = time.Unix(dl, 0)
		}
		if a < 0 || b >= len(scs) {
			common.Broken("bad scenario range %s", w)
		}
		enc := json.NewEncoder(os.Stdout)
		for idx := a; idx <= b; idx++ {
			enc.Encode(ExploreScenario(scs[idx], cfg))
		}
		return
	}
	if argValue("--emit-stats") != "" {
		all := Collect(o, tier, cfg, scs, budget)
		json.NewEncoder(os.Stdout).Encode(all)
		return
	}
	c := common.New(o.Prop, o.Level)
	c.Assume = o.Assume
	all := Collect(o, tier, cfg, scs, budget)
	Summarize(c, cfg, all, len(scs))
	if o.Extra != nil {
		o.Extra(c, tier, all)
	}
	c.Finish()
}

// Collect explores every scenario in worker processes (this binary re-invoked with
// --scenario) and returns the per-scenario statistics.
func Collect(o Options, tier string, cfg Config, scs []*Scenario, budget time.Duration) []Stats {
	n := o.Workers
	if n == 0 {
		n = runtime.NumCPU()
	}
	if n > len(scs) {
		n = len(scs)
	}
	if n < 1 {
		n = 1
	}
	deadline := time.Now().Add(budget)
	var mu sync.Mutex
	var all []Stats
	var wg sync.WaitGroup
	next := 0
	// many small scenarios are handed out in batches (one worker process per batch)
	batch := len(scs) / (n * 8)
	if batch < 1 {
		batch = 1
	}
	for i := 0; i < n; i++ {
		wg.Add(1)
		go func(i int) {
			defer wg.Done()
			for {
				mu.Lock()
				idx := next
				next += batch
				mu.Unlock()
				if idx >= len(scs) {
					return
				}
				hi := idx + batch - 1
				if hi >= len(scs) {
					hi = len(scs) - 1
				}
				args := append([]string{"--tier", tier, "--scenario", fmt.Sprintf("%d-%d", idx, hi), "--deadline", strconv.FormatInt(deadline.Unix(), 10)}, o.PassArgs...)
				cmd := exec.Command(os.Args[0], args...)
				cmd.Env = append(os.Environ(), "GOMAXPROCS=2")
				cmd.Stderr = os.Stderr
				out, err := cmd.StdoutPipe()
				if err != nil {
					common.Broken("worker pipe: %v", err)
				}
				if err := cmd.Start(); err != nil {
					common.Broken("worker start: %v", err)
				}
				sc := bufio.NewScanner(out)
				sc.Buffer(make([]byte, 1<<20), 1<<28)
				for sc.Scan() {
					var st Stats
					if err := json.Unmarshal(sc.Bytes(), &st); err != nil {
						common.Broken("worker output does not parse: %v: %.200s", err, sc.Text())
					}
					mu.Lock()
					all = append(all, st)
					mu.Unlock()
				}
				if err := cmd.Wait(); err != nil {
					common.Broken("worker for scenarios %d-%d (%s ...) failed: %v", idx, hi, scs[idx].Name, err)
				}
			}
		}(i)
	}
	wg.Wait()
	sort.Slice(all, func(i, j int) bool { return all[i].Scenario < all[j].Scenario })
	if len(all) != len(scs) {
		common.Broken("expected %d scenario results, got %d", len(scs), len(all))
	}
	return all
}

// Summarize folds scenario statistics into the evidence of a check.
func Summarize(c *common.Check, cfg Config, all []Stats, nscen int) {
	var execs, trans, switched int64
	exhaustive := true
	outcomes := 0
	kinds := map[string]int{}
	maxCost := 0
	defOnly := 0
	vacuous := []string{}
	perScenario := []map[string]any{}
	for _, st := range all {
		if st.Broken != "" {
			common.Broken("%s", st.Broken)
		}
		execs += st.Execs
		trans += st.Transitions
		switched += st.Switched
		outcomes += st.NOutcomes
		if !st.Exhaustive {
			exhaustive = false
		}
		for k, v := range st.Kinds {
			kinds[k] += v
		}
		if st.DefaultOnly {
			defOnly++
		}
		if st.MaxCost > maxCost {
			maxCost = st.MaxCost
		}
		if st.Execs > 20 && st.NOutcomes == 1 {
			vacuous = append(vacuous, st.Scenario)
		}
		perScenario = append(perScenario, map[string]any{"scenario": st.Scenario, "execs": st.Execs, "distinct_outcomes": st.NOutcomes, "exhaustive": st.Exhaustive, "max_steps": st.MaxSteps})
		for _, f := range st.Found {
			c.Report(f.Sig, f.Msg, f)
		}
	}
	for i, st := range all {
		if i < 3 {
			c.Sample(map[string]any{"scenario": st.Scenario, "default_schedule": st.SampleTrace})
		}
	}
	c.Cov["states"] = execs
	c.Cov["transitions"] = trans
	c.Cov["traces_validated_against_impl"] = execs
	c.Cov["executions_with_context_switch"] = switched
	c.Cov["distinct_outcomes_summed_over_scenarios"] = outcomes
	c.Cov["final_state_kinds"] = kinds
	c.Cov["exhaustive"] = exhaustive
	c.Cov["bounds"] = map[string]any{"deviation_bound": cfg.Bound, "max_steps": cfg.MaxSteps, "scenarios": nscen, "max_deviations_seen": maxCost, "default_schedule_only_scenarios": defOnly}
	c.Cov["one_outcome_scenarios"] = vacuous
	if len(perScenario) <= 120 {
		c.Cov["per_scenario"] = perScenario
	}
	big := append([]Stats(nil), all...)
	sort.Slice(big, func(i, j int) bool { return big[i].Execs > big[j].Execs })
	var largest []map[string]any
	for i := 0; i < len(big) && i < 12; i++ {
		largest = append(largest, map[string]any{"scenario": big[i].Scenario, "execs": big[i].Execs, "exhaustive": big[i].Exhaustive, "max_steps": big[i].MaxSteps, "distinct_outcomes": big[i].NOutcomes})
	}
	c.Cov["largest_scenarios"] = largest
	c.Cov["explanation"] = "stateless DFS over scheduling decisions of the real code under the controlled runtime; states = complete executions; every execution is an execution of the implementation"
}

func replay(o Options, scs []*Scenario, cfg Config, path string) {
	b, err := os.ReadFile(path)
	if err != nil {
		common.Broken("replay: %v", err)
	}
	var doc struct {
		Replay Found `json:"replay"`
	}
	if err := json.Unmarshal(b, &doc); err != nil {
		common.Broken("replay: %v", err)
	}
	for _, sc := range scs {
		if sc.Name != strings.TrimPrefix(doc.Replay.Scenario, argValue("--strip-prefix")) {
			continue
		}
		inst, x := runOnce(sc, cfg, doc.Replay.Choices)
		for _, l := range traceStrings(x.Sched.Trace) {
			fmt.Println("  ", l)
		}
		fmt.Println("outcome:", x.Out.Kind, x.Out.Blocked)
		if x.Out.Crash != "" {
			fmt.Println(x.Out.Crash)
		}
		fmt.Println("obs:", inst.Obs())
		sig, msg := inst.Check(x)
		fmt.Printf("oracle: sig=%q %s\n", sig, msg)
		if sig != "" {
			os.Exit(1)
		}
		os.Exit(0)
	}
	common.Broken("replay: scenario %q not found in this tier", doc.Replay.Scenario)
}

// Package common holds what every check shares: evidence files, violation
// reporting with replay artefacts, and the known-findings file.
package common

import (
	"crypto/sha256"
	"encoding/hex"
	"encoding/json"
	"flag"
	"fmt"
	"os"
	"path/filepath"
	"sort"
	"strconv"
	"strings"
	"sync"
	"time"
)

const Root = "/verif"

// RepoDir is the tree under test: /repo, or a patched scratch copy during mutation experiments.
func RepoDir() string {
	if d := os.Getenv("VERIF_REPO"); d != "" {
		return d
	}
	return "/repo"
}

// Evidence mirrors /root/.vp/EVIDENCE.schema.json.
type Evidence struct {
	PropertyID  string         `json:"property_id"`
	Tier        string         `json:"tier"`
	Seed        int            `json:"seed"`
	Level       string         `json:"level"`
	Coverage    map[string]any `json:"coverage"`
	Assumptions []string       `json:"assumptions,omitempty"`
	WallS       float64        `json:"wall_s"`
	Violations  int            `json:"violations"`
}

type Finding struct {
	Property    string `json:"property"`
	Signature   string `json:"signature"`
	Status      string `json:"status"` // "known" or "fixed"
	Commit      string `json:"commit,omitempty"`
	Description string `json:"description"`
	Witness     any    `json:"witness,omitempty"`
}

// Check is the per-run context of one property check.
type Check struct {
	Prop     string
	Tier     string
	Seed     int
	Level    string
	start    time.Time
	mu       sync.Mutex
	known    map[string]Finding // signature -> finding (status known only)
	printed  map[string]bool
	viols    map[string]string // signature -> replay path
	Cov      map[string]any
	Assume   []string
	samples  []any
	MaxSamp  int
	Deadline time.Time // internal budget; zero = none
}

// Tier returns quick|thorough from argv/env (VERIF_TIER overrides nothing explicit).
func TierFromArgs() string {
	t := os.Getenv("VERIF_TIER")
	for i, a := range os.Args {
		if a == "--tier" && i+1 < len(os.Args) {
			t = os.Args[i+1]
		}
		if strings.HasPrefix(a, "--tier=") {
			t = strings.TrimPrefix(a, "--tier=")
		}
	}
	if t != "thorough" {
		t = "quick"
	}
	return t
}

func New(prop, level string) *Check {
	seed, _ := strconv.Atoi(os.Getenv("VERIF_SEED"))
	c := &Check{Prop: prop, Tier: TierFromArgs(), Seed: seed, Level: level, start: time.Now(),
		known: map[string]Finding{}, printed: map[string]bool{}, viols: map[string]string{},
		Cov: map[string]any{}, MaxSamp: 6}
	// committed known-findings files: /verif/known_findings/<Cxx>.json (one per property;
	// never written at run time)
	b, err := os.ReadFile(filepath.Join(Root, "known_findings", prop+".json"))
	if err == nil {
		var fs []Finding
		if err := json.Unmarshal(b, &fs); err != nil {
			Broken("known_findings/%s.json does not parse: %v", prop, err)
		}
		for _, f := range fs {
			if f.Property == prop && f.Status == "known" {
				c.known[f.Signature] = f
			}
		}
	}
	return c
}

// Broken reports a failure of the machinery itself (exit 2), never a violation.
func Broken(format string, a ...any) {
	fmt.Fprintf(os.Stderr, "BROKEN: "+format+"\n", a...)
	os.Exit(2)
}

// Budget sets an internal wall-clock budget; Expired() tells loops to stop cleanly.
func (c *Check) Budget(d time.Duration) { c.Deadline = c.start.Add(d) }
func (c *Check) Expired() bool {
	return !c.Deadline.IsZero() && time.Now().After(c.Deadline)
}

// Sample records one explored case for the evidence (bounded).
func (c *Check) Sample(s any) {
	c.mu.Lock()
	defer c.mu.Unlock()
	if len(c.samples) < c.MaxSamp {
		c.samples = append(c.samples, s)
	}
}

// IsKnown tells whether a signature is listed as a known finding.
func (c *Check) IsKnown(sig string) bool {
	_, ok := c.known[sig]
	return ok
}

// Report records a disagreement. sig identifies the specific failing input / call
// site / history class; replay is written to /verif/replays when it is not a known finding.
func (c *Check) Report(sig string, what string, replay any) {
	c.mu.Lock()
	defer c.mu.Unlock()
	if f, ok := c.known[sig]; ok {
		if !c.printed[sig] {
			c.printed[sig] = true
			fmt.Printf("KNOWN-FINDING: property=%s %s [%s]\n", c.Prop, f.Description, sig)
		}
		return
	}
	if _, dup := c.viols[sig]; dup {
		return
	}
	body, _ := json.MarshalIndent(map[string]any{"property": c.Prop, "signature": sig, "what": what, "replay": replay}, "", " ")
	h := sha256.Sum256(body)
	os.MkdirAll(filepath.Join(Root, "replays"), 0o755)
	p := filepath.Join(Root, "replays", c.Prop+"-"+hex.EncodeToString(h[:6])+".json")
	os.WriteFile(p, body, 0o644)
	c.viols[sig] = p
	fmt.Printf("VIOLATION property=%s replay=%s\n", c.Prop, p)
	fmt.Printf("  signature: %s\n  what: %s\n", sig, what)
}

func (c *Check) Violations() int {
	c.mu.Lock()
	defer c.mu.Unlock()
	return len(c.viols)
}

// Finish writes the evidence file and exits 0/1.
func (c *Check) Finish() {
	c.mu.Lock()
	ev := Evidence{PropertyID: c.Prop, Tier: c.Tier, Seed: c.Seed, Level: c.Level, Coverage: c.Cov,
		Assumptions: c.Assume, WallS: time.Since(c.start).Seconds(), Violations: len(c.viols)}
	if _, ok := ev.Coverage["samples"]; !ok {
		ev.Coverage["samples"] = c.samples
	}
	var kf []string
	for s := range c.printed {
		kf = append(kf, s)
	}
	sort.Strings(kf)
	ev.Coverage["known_findings_seen"] = kf
	n := len(c.viols)
	c.mu.Unlock()
	WriteEvidence(ev)
	if n > 0 {
		os.Exit(1)
	}
	os.Exit(0)
}

func WriteEvidence(ev Evidence) {
	b, _ := json.MarshalIndent(ev, "", " ")
	os.MkdirAll(filepath.Join(Root, "evidence"), 0o755)
	if err := os.WriteFile(filepath.Join(Root, "evidence", ev.PropertyID+".json"), append(b, '\n'), 0o644); err != nil {
		Broken("cannot write evidence: %v", err)
	}
}

// ReplayArg returns the --replay path if given.
func ReplayArg() string {
	for i, a := range os.Args {
		if a == "--replay" && i+1 < len(os.Args) {
			return os.Args[i+1]
		}
	}
	return ""
}

var _ = flag.Parse

// Hash is a short stable hash for signatures.
func Hash(parts ...any) string {
	b, _ := json.Marshal(parts)
	h := sha256.Sum256(b)
	return hex.EncodeToString(h[:6])
}
